package c18

import (
	"fmt"
	"math/rand/v2"
	"sort"
	"testing"

	"github.com/paulsonkoly/chess-3/board"
	"github.com/paulsonkoly/chess-3/chess"
	"github.com/paulsonkoly/chess-3/heur"

	"verif/harness/conv"
	"verif/harness/ev"
	"verif/harness/gen"
	"verif/harness/ref"
)

type witness struct {
	FEN  string `json:"fen"`
	Move string `json:"move"`
}

// piece values of the exchange model: the engine's own table (heur.PieceValues; on the current tree
// 100/300/300/500/900) - the property fixes the capture-sequence model, not the values. The king is
// never captured; its entry only has to exceed everything else.
var val = func() (v [7]int) {
	for i := 1; i <= 5; i++ {
		v[i] = int(heur.PieceValues[i])
	}
	v[6] = 20 * v[5]
	return
}()

type att struct {
	sq int
	v  int8
}

// attackersOf recomputes the attackers of `to` from scratch on the given mailbox, so x-rays
// need no bookkeeping.
func attackersOf(sq *[64]int8, to int, white bool) []att {
	var r []att
	sg := int8(1)
	if !white {
		sg = -1
	}
	f, rk := to%8, to/8
	pr := rk - int(sg)
	for _, df := range []int{-1, 1} {
		if f+df >= 0 && f+df < 8 && pr >= 0 && pr < 8 && sq[pr*8+f+df] == sg*ref.P {
			r = append(r, att{pr*8 + f + df, ref.P})
		}
	}
	for _, d := range [8][2]int{{1, 2}, {2, 1}, {2, -1}, {1, -2}, {-1, -2}, {-2, -1}, {-2, 1}, {-1, 2}} {
		ff, rr := f+d[0], rk+d[1]
		if ff >= 0 && ff < 8 && rr >= 0 && rr < 8 && sq[rr*8+ff] == sg*ref.N {
			r = append(r, att{rr*8 + ff, ref.N})
		}
	}
	for _, d := range [8][2]int{{1, 0}, {1, 1}, {0, 1}, {-1, 1}, {-1, 0}, {-1, -1}, {0, -1}, {1, -1}} {
		ff, rr := f+d[0], rk+d[1]
		if ff >= 0 && ff < 8 && rr >= 0 && rr < 8 && sq[rr*8+ff] == sg*ref.K {
			r = append(r, att{rr*8 + ff, ref.K})
		}
		diag := d[0] != 0 && d[1] != 0
		for ff, rr := f+d[0], rk+d[1]; ff >= 0 && ff < 8 && rr >= 0 && rr < 8; ff, rr = ff+d[0], rr+d[1] {
			v := sq[rr*8+ff]
			if v == 0 {
				continue
			}
			if v == sg*ref.Q || (diag && v == sg*ref.B) || (!diag && v == sg*ref.R) {
				a := v
				if a < 0 {
					a = -a
				}
				r = append(r, att{rr*8 + ff, a})
			}
			break
		}
	}
	return r
}

// swapValues returns the set of outcomes (for the side to capture next, >= 0 because it may stand
// pat) over all resolutions of ties among equally valued least attackers. onSq = value of the
// piece now standing on `to`.
func swapValues(sq [64]int8, to int, white bool, onSq int) map[int]bool {
	as := attackersOf(&sq, to, white)
	res := map[int]bool{}
	if len(as) == 0 {
		res[0] = true
		return res
	}
	minv := 1 << 30
	for _, a := range as {
		if val[a.v] < minv {
			minv = val[a.v]
		}
	}
	for _, a := range as {
		if val[a.v] != minv {
			continue
		}
		if a.v == ref.K {
			n := sq
			n[a.sq] = 0
			if len(attackersOf(&n, to, !white)) > 0 {
				res[0] = true
				continue
			}
			res[max(0, onSq)] = true
			continue
		}
		n := sq
		n[to] = n[a.sq]
		n[a.sq] = 0
		for v := range swapValues(n, to, !white, val[a.v]) {
			res[max(0, onSq-v)] = true
		}
	}
	return res
}

// seeRef is the set of admissible balances of move m for the mover.
func seeRef(p *ref.Pos, m ref.Move) map[int]bool {
	sq := p.Sq
	from, to := m.From(), m.To()
	v := sq[from]
	a := v
	if a < 0 {
		a = -a
	}
	gain := 0
	if sq[to] != 0 {
		c := sq[to]
		if c < 0 {
			c = -c
		}
		gain = val[c]
	} else if a == ref.P && to == p.EP && from%8 != to%8 {
		sq[(from/8)*8+to%8] = 0
		gain = val[ref.P]
	}
	on := val[a]
	if m.Promo() != 0 {
		gain += val[m.Promo()] - val[ref.P]
		on = val[m.Promo()]
	}
	sq[to] = v
	sq[from] = 0
	out := map[int]bool{}
	for x := range swapValues(sq, to, !p.White, on) {
		out[gain-x] = true
	}
	return out
}

func checkMove(r *ev.Run, lc *ev.Local, p *ref.Pos, b *board.Board, m ref.Move) {
	S := seeRef(p, m)
	var ths []int
	for v := range S {
		ths = append(ths, v-1, v, v+1)
	}
	for t := -(2*val[5] + 200); t <= 2*val[5]+200; t += 50 {
		ths = append(ths, t)
	}
	sort.Ints(ths)
	vstar := -1 << 30
	mono := true
	seenFalse := false
	firstFalse := 0
	for _, t := range ths {
		if heur.SEE(b, conv.M(m), chess.Score(t)) {
			if seenFalse {
				mono = false
			}
			vstar = t
		} else if !seenFalse {
			seenFalse = true
			firstFalse = t
		}
	}
	r.Eval(len(ths))
	lc.C["moves_checked"]++
	lc.C["thresholds_probed"] += int64(len(ths))
	if len(S) > 1 {
		lc.C["moves_with_several_admissible_balances"]++
	}
	switch {
	case p.IsEPCapture(m):
		lc.C["en_passant_moves"]++
	case m.Promo() != 0:
		lc.C["promotion_moves"]++
	case p.Sq[m.To()] != 0:
		lc.C["capture_moves"]++
	default:
		lc.C["quiet_moves"]++
	}
	for v := range S {
		if v < 0 {
			lc.C["moves_with_losing_balance"]++
			break
		}
	}
	var keys []int
	for v := range S {
		keys = append(keys, v)
	}
	sort.Ints(keys)
	if !mono {
		r.Violation("C18:not-monotone", witness{FEN: p.FEN(), Move: m.String()}, fmt.Sprintf("%s move %s: SEE true above a threshold where it was false (first false at %d, later true at %d)", p.FEN(), m, firstFalse, vstar))
	} else if !S[vstar] {
		cls := "too-optimistic"
		if len(keys) > 0 && vstar < keys[0] {
			cls = "too-pessimistic"
		}
		r.Violation("C18:wrong-balance:"+cls, witness{FEN: p.FEN(), Move: m.String()},
			fmt.Sprintf("%s move %s: largest threshold with SEE true is %d, admissible balances of the capture-sequence minimax: %v", p.FEN(), m, vstar, keys))
	}
}

func TestCheck(t *testing.T) {
	r := ev.Start("C18")
	if err := ref.SelfTest(); err != nil {
		r.HarnessError("%v", err)
		r.Finish()
		t.Fatal(err)
	}
	// the exchange model itself: a few hand-computed cases
	for _, c := range []struct {
		fen, mv string
		want    int
	}{
		{"1k1r4/1pp4p/p7/4p3/8/P5P1/1PP4P/2K1R3 w - - 0 1", "e1e5", 100},           // rook takes undefended pawn
		{"1k1r3q/1ppn3p/p4b2/4p3/8/P2N2P1/1PP1R1BP/2K1Q3 w - - 0 1", "d3e5", -200}, // classic: knight takes defended pawn
		{"4k3/8/8/3p4/4P3/8/8/4K3 w - - 0 1", "e4d5", 100},
		{"4k3/8/2p5/3p4/4P3/8/8/4K3 w - - 0 1", "e4d5", 0},
	} {
		p := ref.MustFEN(c.fen)
		var mv ref.Move
		for _, l := range p.Legal() {
			if l.String() == c.mv {
				mv = l
			}
		}
		S := seeRef(&p, mv)
		if len(S) != 1 || !S[c.want] {
			r.HarnessError("exchange model selftest: %s %s gives %v, expected %d", c.fen, c.mv, S, c.want)
			r.Finish()
			t.Fatal("exchange model selftest failed")
		}
	}
	if r.Replay != "" {
		var w witness
		if err := ev.ReadReplay(r.Replay, &w); err != nil {
			t.Fatal(err)
		}
		p := ref.MustFEN(w.FEN)
		b, _ := board.FromFEN(w.FEN)
		for _, l := range p.Legal() {
			if l.String() == w.Move {
				fmt.Printf("replay: %s %s admissible balances %v\n", w.FEN, w.Move, seeRef(&p, l))
				for t := -1000; t <= 1000; t += 100 {
					fmt.Printf("  SEE(threshold %d)=%v\n", t, heur.SEE(b, conv.M(l), chess.Score(t)))
				}
				checkMove(r, ev.NewLocal(), &p, b, l)
			}
		}
		r.Finish()
		return
	}
	nw := ev.Workers()
	lcs := make([]*ev.Local, nw)
	for i := range lcs {
		lcs[i] = ev.NewLocal()
	}
	type src struct {
		name string
		f    func(*rand.Rand) (ref.Pos, bool)
		n    int
	}
	mixed := func(rng *rand.Rand) (ref.Pos, bool) { return gen.AnyPos(rng), true }
	const chunk = 100
	for _, s := range []src{{"dense", gen.Dense, r.N(160000, 8000000)}, {"adv", gen.Adv, r.N(80000, 4000000)}, {"sparse", gen.Sparse, r.N(40000, 2000000)}, {"mixed", mixed, r.N(80000, 4000000)}} {
		ev.Parallel(s.n/chunk, func(wk, i int) {
			lc := lcs[wk]
			rng := r.RNG("c18-"+s.name, i)
			for k := 0; k < chunk; k++ {
				p, ok := s.f(rng)
				if !ok {
					continue
				}
				b, err := board.FromFEN(p.FEN())
				if err != nil {
					continue
				}
				for _, m := range p.Legal() {
					checkMove(r, lc, &p, b, m)
				}
				lc.C["positions"]++
				r.DistinctStr(p.Key())
				if k == 0 && i%40 == 0 {
					r.Sample(map[string]any{"source": s.name, "fen": p.FEN(), "legal_moves": len(p.Legal())})
				}
			}
			r.Merge(lc)
		})
	}
	r.Finish("moves_checked", "moves_with_several_admissible_balances", "en_passant_moves", "promotion_moves", "capture_moves", "quiet_moves", "moves_with_losing_balance")
}
