package ref

import "fmt"

// PerftBulk counts leaf nodes, counting legal moves at depth 1 without making them.
func (p *Pos) PerftBulk(d int) int {
	if d == 0 {
		return 1
	}
	l := p.Legal()
	if d == 1 {
		return len(l)
	}
	n := 0
	for _, m := range l {
		c := p.Make(m)
		n += c.PerftBulk(d - 1)
	}
	return n
}

// published perft results (chessprogramming.org "Perft Results"), typed in from the literature.
var selfTests = []struct {
	fen   string
	depth int
	nodes int
}{
	{"rnbqkbnr/pppppppp/8/8/8/8/PPPPPPPP/RNBQKBNR w KQkq - 0 1", 4, 197281},
	{"r3k2r/p1ppqpb1/bn2pnp1/3PN3/1p2P3/2N2Q1p/PPPBBPPP/R3K2R w KQkq - 0 1", 3, 97862},
	{"8/2p5/3p4/KP5r/1R3p1k/8/4P1P1/8 w - - 0 1", 4, 43238},
	{"r3k2r/Pppp1ppp/1b3nbN/nP6/BBP1P3/q4N2/Pp1P2PP/R2Q1RK1 w kq - 0 1", 4, 422333},
	{"r2q1rk1/pP1p2pp/Q4n2/bbp1p3/Np6/1B3NBn/pPPP1PPP/R3K2R b KQ - 0 1", 3, 9467},
	{"rnbq1k1r/pp1Pbppp/2p5/8/2B5/8/PPP1NnPP/RNBQK2R w KQ - 1 8", 3, 62379},
	{"r4rk1/1pp1qppp/p1np1n2/2b1p1B1/2B1P1b1/P1NP1N2/1PP1QPPP/R4RK1 w - - 0 10", 3, 89890},
}

// SelfTest checks the reference model against published perft counts. A failure means the
// harness is broken; it is never a verdict on chess-3.
func SelfTest() error {
	for _, t := range selfTests {
		p, err := ParseFEN(t.fen)
		if err != nil {
			return fmt.Errorf("ref selftest: %s: %v", t.fen, err)
		}
		if !p.Valid() {
			return fmt.Errorf("ref selftest: %s judged invalid", t.fen)
		}
		if got := p.PerftBulk(t.depth); got != t.nodes {
			return fmt.Errorf("ref selftest: perft(%d) of %s = %d, published %d", t.depth, t.fen, got, t.nodes)
		}
		m := p.Mirror()
		if got := m.PerftBulk(t.depth - 1); got != p.PerftBulk(t.depth-1) {
			return fmt.Errorf("ref selftest: mirror perft mismatch on %s", t.fen)
		}
	}
	// e.p. normalisation specials
	for _, c := range []struct {
		fen  string
		keep bool
	}{
		{"8/8/8/8/k2Pp2Q/8/8/3K4 b - d3 0 1", false}, // e.p. would expose the king on the rank
		{"8/8/8/2k5/3Pp3/8/8/4K3 b - d3 0 1", true},  // pawn gives check, e.p. capture resolves it
		{"4k3/8/8/8/4pP2/8/8/4K3 b - f3 0 1", true},  // plain legal e.p.
		{"8/8/8/7k/3pP3/8/8/3BK3 b - e3 0 1", false}, // check discovered through the origin square, e.p. does not resolve it
		{"4k3/4r3/8/8/3pP3/8/8/4K3 b - e3 0 1", true},
	} {
		p := MustFEN(c.fen)
		if !p.Valid() {
			return fmt.Errorf("ref selftest: %s judged invalid", c.fen)
		}
		n := p.Normalised()
		if (n.EP >= 0) != c.keep {
			return fmt.Errorf("ref selftest: e.p. normalisation of %s kept=%v want %v", c.fen, n.EP >= 0, c.keep)
		}
	}
	return nil
}

// HasLegalEP reports whether a legal en-passant capture exists.
func (p *Pos) HasLegalEP() bool {
	n := p.Normalised()
	return n.EP >= 0
}

// IsEPCapture reports whether m is an en-passant capture in p.
func (p *Pos) IsEPCapture(m Move) bool {
	return p.EP >= 0 && m.To() == p.EP && abs8(p.Sq[m.From()]) == P && m.From()%8 != m.To()%8
}

// IsCastle reports whether m is a castling move in p.
func (p *Pos) IsCastle(m Move) bool {
	return abs8(p.Sq[m.From()]) == K && (m.To()-m.From() == 2 || m.From()-m.To() == 2)
}

// IsCapture reports whether m captures (including en passant).
func (p *Pos) IsCapture(m Move) bool { return p.Sq[m.To()] != 0 || p.IsEPCapture(m) }

// Checkers counts the pieces attacking the king of the side to move.
func (p *Pos) Checkers() int {
	ks := p.KingSq(p.White)
	if ks < 0 {
		return 0
	}
	n := 0
	for s, v := range p.Sq {
		if v == 0 || (v > 0) == p.White {
			continue
		}
		// does the piece on s attack ks? test by removing every other enemy piece's influence:
		q := *p
		for t, w := range q.Sq {
			if t != s && w != 0 && (w > 0) != p.White {
				// keep as blocker but make it harmless: replace by a friendly pawn-less blocker
				q.Sq[t] = sign(p.White) * N // a friendly knight blocks rays but never attacks own king
			}
		}
		if q.Attacked(ks, !p.White) {
			n++
		}
	}
	return n
}

// PieceCount is the number of pieces on the board.
func (p *Pos) PieceCount() int {
	n := 0
	for _, v := range p.Sq {
		if v != 0 {
			n++
		}
	}
	return n
}
