// Package ref is an independent, deliberately simple chess rules model (mailbox, ray walking).
package ref

import (
	"fmt"
	"strconv"
	"strings"
)

// Piece codes: 0 empty, 1..6 = P N B R Q K white, -1..-6 black.
const (
	P = 1
	N = 2
	B = 3
	R = 4
	Q = 5
	K = 6
)

const (
	WK = 1 // white short
	WQ = 2 // white long
	BK = 4
	BQ = 8
)

type Move uint16 // to | from<<6 | promo<<12 (promo uses piece codes N..Q)

func MkMove(from, to, promo int) Move { return Move(to | from<<6 | promo<<12) }
func (m Move) From() int              { return int(m>>6) & 63 }
func (m Move) To() int                { return int(m) & 63 }
func (m Move) Promo() int             { return int(m>>12) & 7 }
func (m Move) String() string {
	if m == 0 {
		return "0000"
	}
	s := sqName(m.From()) + sqName(m.To())
	if m.Promo() != 0 {
		s += string(" pnbrqk?"[m.Promo()])
	}
	return s
}

func sqName(s int) string { return string([]byte{byte('a' + s%8), byte('1' + s/8)}) }

type Pos struct {
	Sq     [64]int8
	White  bool // white to move
	Castle uint8
	EP     int // -1 none
	Half   int
	Full   int
}

func sign(white bool) int8 {
	if white {
		return 1
	}
	return -1
}

// ParseFEN parses a 6-field FEN strictly.
func ParseFEN(s string) (Pos, error) {
	var p Pos
	p.EP = -1
	f := strings.Fields(s)
	if len(f) != 6 {
		return p, fmt.Errorf("fields")
	}
	ranks := strings.Split(f[0], "/")
	if len(ranks) != 8 {
		return p, fmt.Errorf("ranks")
	}
	for i, rk := range ranks {
		r := 7 - i
		file := 0
		for _, c := range rk {
			if c >= '1' && c <= '8' {
				file += int(c - '0')
				continue
			}
			ix := strings.IndexRune("PNBRQK", c)
			v := int8(0)
			if ix >= 0 {
				v = int8(ix + 1)
			} else if ix = strings.IndexRune("pnbrqk", c); ix >= 0 {
				v = -int8(ix + 1)
			} else {
				return p, fmt.Errorf("char")
			}
			if file > 7 {
				return p, fmt.Errorf("file")
			}
			p.Sq[r*8+file] = v
			file++
		}
		if file != 8 {
			return p, fmt.Errorf("rank len")
		}
	}
	switch f[1] {
	case "w":
		p.White = true
	case "b":
	default:
		return p, fmt.Errorf("stm")
	}
	if f[2] != "-" {
		for _, c := range f[2] {
			switch c {
			case 'K':
				p.Castle |= WK
			case 'Q':
				p.Castle |= WQ
			case 'k':
				p.Castle |= BK
			case 'q':
				p.Castle |= BQ
			default:
				return p, fmt.Errorf("castle")
			}
		}
	}
	if f[3] != "-" {
		if len(f[3]) != 2 || f[3][0] < 'a' || f[3][0] > 'h' || f[3][1] < '1' || f[3][1] > '8' {
			return p, fmt.Errorf("ep")
		}
		p.EP = int(f[3][0]-'a') + 8*int(f[3][1]-'1')
	}
	var err error
	if p.Half, err = strconv.Atoi(f[4]); err != nil {
		return p, err
	}
	if p.Full, err = strconv.Atoi(f[5]); err != nil {
		return p, err
	}
	return p, nil
}

func MustFEN(s string) Pos {
	p, err := ParseFEN(s)
	if err != nil {
		panic(err.Error() + ": " + s)
	}
	return p
}

func (p *Pos) FEN() string {
	var sb strings.Builder
	for r := 7; r >= 0; r-- {
		e := 0
		for f := 0; f < 8; f++ {
			v := p.Sq[r*8+f]
			if v == 0 {
				e++
				continue
			}
			if e > 0 {
				sb.WriteByte(byte('0' + e))
				e = 0
			}
			if v > 0 {
				sb.WriteByte("PNBRQK"[v-1])
			} else {
				sb.WriteByte("pnbrqk"[-v-1])
			}
		}
		if e > 0 {
			sb.WriteByte(byte('0' + e))
		}
		if r > 0 {
			sb.WriteByte('/')
		}
	}
	if p.White {
		sb.WriteString(" w ")
	} else {
		sb.WriteString(" b ")
	}
	if p.Castle == 0 {
		sb.WriteByte('-')
	} else {
		for i, c := range "KQkq" {
			if p.Castle&(1<<i) != 0 {
				sb.WriteRune(c)
			}
		}
	}
	sb.WriteByte(' ')
	if p.EP < 0 {
		sb.WriteByte('-')
	} else {
		sb.WriteString(sqName(p.EP))
	}
	fmt.Fprintf(&sb, " %d %d", p.Half, p.Full)
	return sb.String()
}

// Key identifies a position for repetition purposes. EP must already be normalised.
func (p *Pos) Key() string {
	f := strings.Fields(p.FEN())
	return f[0] + " " + f[1] + " " + f[2] + " " + f[3]
}

var knightD = [8][2]int{{1, 2}, {2, 1}, {2, -1}, {1, -2}, {-1, -2}, {-2, -1}, {-2, 1}, {-1, 2}}
var kingD = [8][2]int{{1, 0}, {1, 1}, {0, 1}, {-1, 1}, {-1, 0}, {-1, -1}, {0, -1}, {1, -1}}
var bishopD = [4][2]int{{1, 1}, {-1, 1}, {-1, -1}, {1, -1}}
var rookD = [4][2]int{{1, 0}, {0, 1}, {-1, 0}, {0, -1}}

func on(f, r int) bool { return f >= 0 && f < 8 && r >= 0 && r < 8 }

// Attacked reports whether square s is attacked by the given side.
func (p *Pos) Attacked(s int, byWhite bool) bool {
	sg := sign(byWhite)
	f, r := s%8, s/8
	// pawns: a white pawn on (f±1, r-1) attacks s
	pr := r - int(sg)
	for _, df := range []int{-1, 1} {
		if on(f+df, pr) && p.Sq[pr*8+f+df] == sg*P {
			return true
		}
	}
	for _, d := range knightD {
		if on(f+d[0], r+d[1]) && p.Sq[(r+d[1])*8+f+d[0]] == sg*N {
			return true
		}
	}
	for _, d := range kingD {
		if on(f+d[0], r+d[1]) && p.Sq[(r+d[1])*8+f+d[0]] == sg*K {
			return true
		}
	}
	for _, d := range bishopD {
		for ff, rr := f+d[0], r+d[1]; on(ff, rr); ff, rr = ff+d[0], rr+d[1] {
			v := p.Sq[rr*8+ff]
			if v != 0 {
				if v == sg*B || v == sg*Q {
					return true
				}
				break
			}
		}
	}
	for _, d := range rookD {
		for ff, rr := f+d[0], r+d[1]; on(ff, rr); ff, rr = ff+d[0], rr+d[1] {
			v := p.Sq[rr*8+ff]
			if v != 0 {
				if v == sg*R || v == sg*Q {
					return true
				}
				break
			}
		}
	}
	return false
}

func (p *Pos) KingSq(white bool) int {
	k := sign(white) * K
	for s, v := range p.Sq {
		if v == k {
			return s
		}
	}
	return -1
}

func (p *Pos) InCheck(white bool) bool {
	return p.Attacked(p.KingSq(white), !white)
}

// Pseudo returns pseudo-legal moves in the engine's sense: everything that obeys piece
// movement; castling only when rights, empty path and unattacked e/f/g (e/d/c) squares hold.
func (p *Pos) Pseudo() []Move {
	var ms []Move
	sg := sign(p.White)
	add := func(from, to int) { ms = append(ms, MkMove(from, to, 0)) }
	for s, v := range p.Sq {
		if v == 0 || (v > 0) != p.White {
			continue
		}
		f, r := s%8, s/8
		switch v * sg {
		case P:
			dir := int(sg)
			last := 7
			start := 1
			if !p.White {
				last, start = 0, 6
			}
			addP := func(to int) {
				if to/8 == last {
					for pr := Q; pr >= N; pr-- {
						ms = append(ms, MkMove(s, to, pr))
					}
				} else {
					add(s, to)
				}
			}
			if on(f, r+dir) && p.Sq[(r+dir)*8+f] == 0 {
				addP((r+dir)*8 + f)
				if r == start && p.Sq[(r+2*dir)*8+f] == 0 {
					add(s, (r+2*dir)*8+f)
				}
			}
			for _, df := range []int{-1, 1} {
				if !on(f+df, r+dir) {
					continue
				}
				to := (r+dir)*8 + f + df
				t := p.Sq[to]
				if t != 0 && (t > 0) != p.White {
					addP(to)
				} else if t == 0 && to == p.EP {
					add(s, to)
				}
			}
		case N, K:
			ds := knightD
			if v*sg == K {
				ds = kingD
			}
			for _, d := range ds {
				if on(f+d[0], r+d[1]) {
					to := (r+d[1])*8 + f + d[0]
					if t := p.Sq[to]; t == 0 || (t > 0) != p.White {
						add(s, to)
					}
				}
			}
		case B, R, Q:
			var ds [][2]int
			if v*sg != R {
				ds = append(ds, bishopD[:]...)
			}
			if v*sg != B {
				ds = append(ds, rookD[:]...)
			}
			for _, d := range ds {
				for ff, rr := f+d[0], r+d[1]; on(ff, rr); ff, rr = ff+d[0], rr+d[1] {
					to := rr*8 + ff
					t := p.Sq[to]
					if t == 0 {
						add(s, to)
						continue
					}
					if (t > 0) != p.White {
						add(s, to)
					}
					break
				}
			}
		}
	}
	// castling
	type cs struct {
		right uint8
		k, rk int
		empty []int
		safe  []int
		to    int
	}
	var list []cs
	if p.White {
		list = []cs{{WK, 4, 7, []int{5, 6}, []int{4, 5, 6}, 6}, {WQ, 4, 0, []int{1, 2, 3}, []int{4, 3, 2}, 2}}
	} else {
		list = []cs{{BK, 60, 63, []int{61, 62}, []int{60, 61, 62}, 62}, {BQ, 60, 56, []int{57, 58, 59}, []int{60, 59, 58}, 58}}
	}
	for _, c := range list {
		if p.Castle&c.right == 0 || p.Sq[c.k] != sg*K || p.Sq[c.rk] != sg*R {
			continue
		}
		ok := true
		for _, e := range c.empty {
			if p.Sq[e] != 0 {
				ok = false
			}
		}
		for _, e := range c.safe {
			if ok && p.Attacked(e, !p.White) {
				ok = false
			}
		}
		if ok {
			add(c.k, c.to)
		}
	}
	return ms
}

// Make plays m (assumed pseudo-legal) and returns the successor with the RAW e.p. target
// (set after every double push).
func (p *Pos) Make(m Move) Pos {
	n := *p
	from, to := m.From(), m.To()
	v := n.Sq[from]
	sg := sign(p.White)
	capture := n.Sq[to] != 0
	n.EP = -1
	if v*sg == P {
		if to == p.EP && p.EP >= 0 && n.Sq[to] == 0 && from%8 != to%8 {
			n.Sq[(from/8)*8+to%8] = 0
			capture = true
		}
		if to-from == 16 || from-to == 16 {
			n.EP = (from + to) / 2
		}
	}
	n.Sq[from] = 0
	if m.Promo() != 0 {
		n.Sq[to] = sg * int8(m.Promo())
	} else {
		n.Sq[to] = v
	}
	if v*sg == K && (to-from == 2 || from-to == 2) {
		if to > from {
			n.Sq[from+1] = n.Sq[from+3]
			n.Sq[from+3] = 0
		} else {
			n.Sq[from-1] = n.Sq[from-4]
			n.Sq[from-4] = 0
		}
	}
	// castling rights
	if v == K {
		n.Castle &^= WK | WQ
	}
	if v == -K {
		n.Castle &^= BK | BQ
	}
	for _, s := range []int{from, to} {
		switch s {
		case 0:
			n.Castle &^= WQ
		case 7:
			n.Castle &^= WK
		case 56:
			n.Castle &^= BQ
		case 63:
			n.Castle &^= BK
		}
	}
	if v*sg == P || capture {
		n.Half = 0
	} else {
		n.Half = p.Half + 1
	}
	if !p.White {
		n.Full++
	}
	n.White = !p.White
	return n
}

// Legal returns the legal moves.
func (p *Pos) Legal() []Move {
	var out []Move
	for _, m := range p.Pseudo() {
		n := p.Make(m)
		if !n.InCheck(p.White) {
			out = append(out, m)
		}
	}
	return out
}

// Normalised returns p with the e.p. target kept only if a legal e.p. capture exists.
func (p Pos) Normalised() Pos {
	if p.EP < 0 {
		return p
	}
	for _, m := range p.Legal() {
		if m.To() == p.EP && abs8(p.Sq[m.From()]) == P && m.From()%8 != m.To()%8 {
			return p
		}
	}
	p.EP = -1
	return p
}

func abs8(v int8) int8 {
	if v < 0 {
		return -v
	}
	return v
}

// Valid implements the validity predicate of the property quantifiers.
func (p *Pos) Valid() bool {
	var cnt [2][7]int
	for s, v := range p.Sq {
		if v == 0 {
			continue
		}
		c := 0
		if v < 0 {
			c = 1
		}
		cnt[c][abs8(v)]++
		if abs8(v) == P && (s/8 == 0 || s/8 == 7) {
			return false
		}
	}
	for c := 0; c < 2; c++ {
		if cnt[c][K] != 1 {
			return false
		}
		promoted := max(0, cnt[c][N]-2) + max(0, cnt[c][B]-2) + max(0, cnt[c][R]-2) + max(0, cnt[c][Q]-1)
		if cnt[c][P]+promoted > 8 {
			return false
		}
	}
	if p.InCheck(!p.White) {
		return false
	}
	if p.Castle&WK != 0 && (p.Sq[4] != K || p.Sq[7] != R) {
		return false
	}
	if p.Castle&WQ != 0 && (p.Sq[4] != K || p.Sq[0] != R) {
		return false
	}
	if p.Castle&BK != 0 && (p.Sq[60] != -K || p.Sq[63] != -R) {
		return false
	}
	if p.Castle&BQ != 0 && (p.Sq[60] != -K || p.Sq[56] != -R) {
		return false
	}
	if p.EP >= 0 {
		// white to move: target on rank 6 (index 5), black pawn on rank 5 in front of it, origin (rank 7) empty
		if p.White {
			if p.EP/8 != 5 || p.Sq[p.EP] != 0 || p.Sq[p.EP-8] != -P || p.Sq[p.EP+8] != 0 {
				return false
			}
		} else {
			if p.EP/8 != 2 || p.Sq[p.EP] != 0 || p.Sq[p.EP+8] != P || p.Sq[p.EP-8] != 0 {
				return false
			}
		}
		// "a pawn that could just have double-pushed": with the push taken back it was the
		// pusher's turn, so the side now to move must not have been in check then (a check that
		// exists now was given by the pushed pawn or discovered through its origin square).
		q := *p
		if p.White {
			q.Sq[p.EP-8], q.Sq[p.EP+8] = 0, -P
		} else {
			q.Sq[p.EP+8], q.Sq[p.EP-8] = 0, P
		}
		if q.Attacked(q.KingSq(p.White), !p.White) {
			return false
		}
	}
	return true
}

// Perft counts leaf nodes.
func (p *Pos) Perft(d int) int {
	if d == 0 {
		return 1
	}
	n := 0
	for _, m := range p.Legal() {
		c := p.Make(m)
		n += c.Perft(d - 1)
	}
	return n
}

// Mirror flips ranks and swaps colours.
func (p *Pos) Mirror() Pos {
	var n Pos
	for s, v := range p.Sq {
		n.Sq[s^56] = -v
	}
	n.White = !p.White
	n.Castle = (p.Castle>>2)&3 | (p.Castle&3)<<2
	n.EP = -1
	if p.EP >= 0 {
		n.EP = p.EP ^ 56
	}
	n.Half, n.Full = p.Half, p.Full
	return n
}
