// Package eng holds thin adapters that run the real chess-3 code and return observations.
package eng

import (
	"fmt"
	"sort"

	"github.com/paulsonkoly/chess-3/board"
	"github.com/paulsonkoly/chess-3/move"
	"github.com/paulsonkoly/chess-3/movegen"

	"verif/harness/conv"
	"verif/harness/ref"
)

// Board loads the reference position into a real engine board through FromFEN.
func Board(p *ref.Pos) (*board.Board, error) {
	return board.FromFEN(p.FEN())
}

// MustBoard is Board that panics on error.
func MustBoard(p *ref.Pos) *board.Board {
	b, err := board.FromFEN(p.FEN())
	if err != nil {
		panic(fmt.Sprintf("FromFEN(%q): %v", p.FEN(), err))
	}
	return b
}

// Gen returns the raw generator output (noisy then quiet) using the real move store.
func Gen(b *board.Board, ms *move.Store) []move.Move {
	ms.Push()
	movegen.GenNoisy(ms, b)
	movegen.GenNotNoisy(ms, b)
	fr := ms.Frame()
	r := make([]move.Move, len(fr))
	for i, m := range fr {
		r[i] = m.Move
	}
	ms.Pop()
	return r
}

// Legal filters Gen the way the engine does: make, test the mover's king, undo.
func Legal(b *board.Board, ms *move.Store) []move.Move {
	me := b.STM
	var r []move.Move
	for _, m := range Gen(b, ms) {
		rv := b.MakeMove(m)
		if !b.InCheck(me) {
			r = append(r, m)
		}
		b.UndoMove(m, rv)
	}
	return r
}

// SameSet compares an engine move list with a reference move list as multisets.
func SameSet(a []move.Move, b []ref.Move) bool {
	if len(a) != len(b) {
		return false
	}
	x := make([]uint16, len(a))
	y := make([]uint16, len(b))
	for i := range a {
		x[i] = uint16(conv.R(a[i]))
		y[i] = uint16(b[i])
	}
	sort.Slice(x, func(i, j int) bool { return x[i] < x[j] })
	sort.Slice(y, func(i, j int) bool { return y[i] < y[j] })
	for i := range x {
		if x[i] != y[i] {
			return false
		}
	}
	return true
}

// HasDup reports whether a move list contains an encoding twice.
func HasDup(a []move.Move) bool {
	for i := range a {
		for j := i + 1; j < len(a); j++ {
			if a[i] == a[j] {
				return true
			}
		}
	}
	return false
}

// Names renders engine moves.
func Names(a []move.Move) []string {
	r := make([]string, len(a))
	for i, m := range a {
		r[i] = m.String()
	}
	sort.Strings(r)
	return r
}

// RefNames renders reference moves.
func RefNames(a []ref.Move) []string {
	r := make([]string, len(a))
	for i, m := range a {
		r[i] = m.String()
	}
	sort.Strings(r)
	return r
}
