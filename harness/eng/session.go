package eng

import (
	"bytes"
	"io"
	"strings"
	"sync"
	"time"

	"github.com/paulsonkoly/chess-3/uci"
)

// Session runs a real uci.Driver over pipes so that a harness can behave like a conforming
// GUI: send a command, wait for the answer, send the next one.
type Session struct {
	in   *io.PipeWriter
	mu   sync.Mutex
	cond *sync.Cond
	buf  []byte
	line []string
	read int
	eof  bool
	Err  *LockedBuffer
	done chan struct{}
}

// LockedBuffer is a goroutine-safe bytes.Buffer.
type LockedBuffer struct {
	mu sync.Mutex
	b  bytes.Buffer
}

func (l *LockedBuffer) Write(p []byte) (int, error) {
	l.mu.Lock()
	defer l.mu.Unlock()
	return l.b.Write(p)
}

func (l *LockedBuffer) String() string {
	l.mu.Lock()
	defer l.mu.Unlock()
	return l.b.String()
}

// Write collects driver output and splits it into lines.
func (s *Session) Write(p []byte) (int, error) {
	s.mu.Lock()
	s.buf = append(s.buf, p...)
	for {
		i := bytes.IndexByte(s.buf, '\n')
		if i < 0 {
			break
		}
		s.line = append(s.line, string(s.buf[:i]))
		s.buf = s.buf[i+1:]
	}
	s.cond.Broadcast()
	s.mu.Unlock()
	return len(p), nil
}

// NewSession starts a driver; extra options (e.g. a mock search) may be given.
func NewSession(opts ...uci.DriverOpt) *Session {
	pr, pw := io.Pipe()
	s := &Session{in: pw, Err: &LockedBuffer{}, done: make(chan struct{})}
	s.cond = sync.NewCond(&s.mu)
	all := append([]uci.DriverOpt{uci.WithInput(pr), uci.WithOutput(s), uci.WithError(s.Err)}, opts...)
	d := uci.NewDriver(all...)
	go func() {
		d.Run()
		s.mu.Lock()
		s.eof = true
		s.cond.Broadcast()
		s.mu.Unlock()
		close(s.done)
	}()
	return s
}

// Send writes one command line.
func (s *Session) Send(cmd string) { io.WriteString(s.in, cmd+"\n") }

// Until returns the output lines up to and including the first one with the given prefix.
// ok is false if the driver terminated or the (generous, watchdog-only) timeout fired first.
func (s *Session) Until(prefix string, timeout time.Duration) (lines []string, ok bool) {
	deadline := time.Now().Add(timeout)
	t := time.AfterFunc(timeout, func() { s.mu.Lock(); s.cond.Broadcast(); s.mu.Unlock() })
	defer t.Stop()
	s.mu.Lock()
	defer s.mu.Unlock()
	for {
		for s.read < len(s.line) {
			l := s.line[s.read]
			s.read++
			lines = append(lines, l)
			if strings.HasPrefix(l, prefix) {
				return lines, true
			}
		}
		if s.eof || time.Now().After(deadline) {
			return lines, false
		}
		s.cond.Wait()
	}
}

// Close sends quit, closes the input and waits for Run to return. It reports whether the
// driver terminated within the watchdog timeout.
func (s *Session) Close(timeout time.Duration) bool {
	s.Send("quit")
	s.in.Close()
	select {
	case <-s.done:
		return true
	case <-time.After(timeout):
		return false
	}
}

// Rest returns the lines not yet consumed.
func (s *Session) Rest() []string {
	s.mu.Lock()
	defer s.mu.Unlock()
	r := append([]string(nil), s.line[s.read:]...)
	s.read = len(s.line)
	return r
}
