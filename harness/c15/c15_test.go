package c15

import (
	"fmt"
	"math/rand/v2"
	"strings"
	"testing"

	"github.com/paulsonkoly/chess-3/board"
	"github.com/paulsonkoly/chess-3/chess"
	"github.com/paulsonkoly/chess-3/move"
	"github.com/paulsonkoly/chess-3/transp"

	"verif/harness/ev"
)

const (
	inf      = 10000
	maxPlies = 64
)

type op struct {
	Op    string `json:"op"` // insert lookup clear resize
	Hash  uint64 `json:"hash,omitempty"`
	Gen   int    `json:"gen,omitempty"`
	Depth int    `json:"depth,omitempty"`
	Ply   int    `json:"ply,omitempty"`
	Move  int    `json:"move,omitempty"`
	Value int    `json:"value,omitempty"`
	Type  int    `json:"type,omitempty"`
	Size  int    `json:"size,omitempty"`
}

type witness struct {
	Kind string `json:"kind"`
	Size int    `json:"initial_size"`
	Ops  []op   `json:"ops"`
	Word string `json:"word,omitempty"`
	Key  int    `json:"key,omitempty"`
}

type ent struct {
	d     int
	typ   int
	val   int // stored form (re-based to ply 0)
	mv    int
	gen   int
	alive bool
	hash  uint64
}

type key struct {
	b   int
	sig uint16
}

// model is the executable sequential specification of the table.
type model struct {
	t        *transp.Table
	ents     map[key]*ent
	byBucket map[int][]key
	judged   bool // false after a resize without clear: only memory safety is judged
	log      []op
	size0    int
	lc       *ev.Local
	r        *ev.Run
	failed   bool
}

func newModel(r *ev.Run, lc *ev.Local, size int) *model {
	m := &model{t: transp.New(size), ents: map[key]*ent{}, byBucket: map[int][]key{}, judged: true, size0: size, lc: lc, r: r}
	m.t.Clear()
	return m
}

func (m *model) keyOf(h uint64) key { return key{m.t.VerifBucketIx(board.Hash(h)), uint16(h >> 48)} }

func (m *model) fail(sig, detail string) {
	if m.failed {
		return
	}
	m.failed = true
	ops := m.log
	if len(ops) > 400 {
		ops = ops[len(ops)-400:]
	}
	m.r.Violation("C15:"+sig, witness{Kind: "history", Size: m.size0, Ops: append([]op(nil), ops...)}, detail)
}

func rebased(stored, ply int) int {
	if stored > inf-maxPlies {
		return stored - ply
	}
	if stored < -inf+maxPlies {
		return stored + ply
	}
	return stored
}

func (m *model) compare(where string, h uint64, e *ent, probePly int) {
	got, ok := m.t.LookUp(board.Hash(h))
	if !ok {
		m.fail("miss-"+where, fmt.Sprintf("%s: key %016x (bucket %d sig %04x) must hit", where, h, m.keyOf(h).b, uint16(h>>48)))
		return
	}
	want := rebased(e.val, probePly)
	if int(got.Depth()) != e.d || int(got.Type()) != e.typ || int(got.Move) != e.mv || int(got.Value(chess.Depth(probePly))) != want {
		what := []string{}
		if int(got.Depth()) != e.d {
			what = append(what, "depth")
		}
		if int(got.Type()) != e.typ {
			what = append(what, "bound")
		}
		if int(got.Move) != e.mv {
			what = append(what, "move")
		}
		if int(got.Value(chess.Depth(probePly))) != want {
			what = append(what, "value")
		}
		m.fail("wrong-data-"+where+":"+strings.Join(what, "+"), fmt.Sprintf("%s: key %016x probe at ply %d returned depth %d bound %d move %d value %d; stored for that key: depth %d bound %d move %d value %d (stored form %d)",
			where, h, probePly, got.Depth(), got.Type(), got.Move, got.Value(chess.Depth(probePly)), e.d, e.typ, e.mv, want, e.val))
	}
}

func (m *model) insert(rng *rand.Rand, o op) {
	m.log = append(m.log, o)
	h := o.Hash
	k := m.keyOf(h)
	if !m.judged {
		m.t.Insert(board.Hash(h), transp.Gen(o.Gen), chess.Depth(o.Depth), chess.Depth(o.Ply), move.Move(o.Move), chess.Score(o.Value), transp.Type(o.Type))
		m.t.LookUp(board.Hash(h))
		m.lc.C["ops_after_resize_without_clear(memory_safety_only)"]++
		return
	}
	// which tracked keys of the bucket are reachable before the store
	var before []key
	for _, kk := range m.byBucket[k.b] {
		if e := m.ents[kk]; e.alive {
			if _, ok := m.t.LookUp(board.Hash(e.hash)); ok {
				before = append(before, kk)
			} else {
				m.fail("stored-key-vanished", fmt.Sprintf("key %016x was reachable after the previous operation and is not before this store", e.hash))
				return
			}
		}
	}
	m.t.Insert(board.Hash(h), transp.Gen(o.Gen), chess.Depth(o.Depth), chess.Depth(o.Ply), move.Move(o.Move), chess.Score(o.Value), transp.Type(o.Type))
	m.lc.C["stores"]++
	stored := o.Value
	if o.Value < -inf+maxPlies {
		stored = o.Value - o.Ply
	}
	if o.Value > inf-maxPlies {
		stored = o.Value + o.Ply
		m.lc.C["mate_score_stores"]++
	}
	if k.sig != 0 {
		e := m.ents[k]
		if e != nil && e.alive {
			if o.Type != int(transp.Exact) && e.d > o.Depth+2 && e.gen == o.Gen {
				m.lc.C["keep_deeper_exceptions"]++
			} else {
				mv := o.Move
				if mv == 0 {
					mv = e.mv
					if mv != 0 {
						m.lc.C["null_move_stores_keeping_older_move"]++
					}
				}
				*e = ent{o.Depth, o.Type, stored, mv, o.Gen, true, h}
				m.lc.C["same_key_overwrites"]++
			}
		} else {
			if e == nil {
				m.byBucket[k.b] = append(m.byBucket[k.b], k)
			}
			m.ents[k] = &ent{o.Depth, o.Type, stored, o.Move, o.Gen, true, h}
		}
	} else {
		m.lc.C["zero_signature_stores"]++
		// zero-signature keys are exempt from the no-phantom clause only: a probe right after the
		// store must still hit and reflect it. Judged for exact stores with a move (no keep-deeper
		// exception, no inherited move), which always overwrite.
		if o.Type == int(transp.Exact) && o.Move != 0 {
			m.lc.C["zero_signature_exact_stores_probed"]++
			m.compare("after-store-of-zero-signature-key", h, &ent{o.Depth, o.Type, stored, o.Move, o.Gen, true, h}, rng.IntN(64))
		}
	}
	// learn evictions by probing: at most one OTHER previously reachable key may be gone
	lost := 0
	for _, kk := range before {
		if kk == k {
			continue
		}
		if _, ok := m.t.LookUp(board.Hash(m.ents[kk].hash)); !ok {
			m.ents[kk].alive = false
			lost++
		}
	}
	m.lc.C["evictions"] += int64(lost)
	if lost > 1 {
		m.fail("store-evicts-more-than-one-key", fmt.Sprintf("store of %016x made %d other keys of bucket %d unreachable", h, lost, k.b))
		return
	}
	if k.sig != 0 {
		m.compare("after-store", h, m.ents[k], rng.IntN(64))
	}
	// everything else that is still alive in the bucket must be unchanged
	for _, kk := range before {
		if kk != k && m.ents[kk].alive && !m.failed {
			m.compare("other-key-after-store", m.ents[kk].hash, m.ents[kk], rng.IntN(64))
		}
	}
}

func (m *model) lookup(rng *rand.Rand, o op) {
	m.log = append(m.log, o)
	h := o.Hash
	got, ok := m.t.LookUp(board.Hash(h))
	if !m.judged {
		if ok {
			_ = got.Value(chess.Depth(o.Ply))
		}
		m.lc.C["ops_after_resize_without_clear(memory_safety_only)"]++
		return
	}
	m.lc.C["probes"]++
	k := m.keyOf(h)
	if k.sig == 0 {
		m.lc.C["zero_signature_probes(exempt)"]++
		return
	}
	e := m.ents[k]
	if ok {
		m.lc.C["hits"]++
		if e == nil || !e.alive {
			m.fail("phantom-hit", fmt.Sprintf("probe of %016x (bucket %d sig %04x) hits although nothing is stored under that bucket and signature: depth %d bound %d move %d", h, k.b, k.sig, got.Depth(), got.Type(), got.Move))
			return
		}
		m.compare("probe", h, e, o.Ply)
		if e.hash != h {
			m.lc.C["hits_through_same_bucket_and_signature_alias"]++
		}
	} else {
		m.lc.C["misses"]++
		if e != nil && e.alive {
			m.fail("miss-of-stored-key", fmt.Sprintf("probe of %016x misses although it was stored and not evicted", h))
		}
	}
}

func (m *model) clear() {
	m.log = append(m.log, op{Op: "clear"})
	m.t.Clear()
	for _, e := range m.ents {
		e.alive = false
	}
	m.ents = map[key]*ent{}
	m.byBucket = map[int][]key{}
	m.judged = true
	m.lc.C["clears"]++
}

func (m *model) resize(size int) {
	m.log = append(m.log, op{Op: "resize", Size: size})
	m.t.Resize(size)
	m.judged = false
	m.ents = map[key]*ent{}
	m.byBucket = map[int][]key{}
	m.lc.C["resizes"]++
}

// pool builds keys that collide: same bucket/different signature, same signature/different
// bucket, same both/different remaining bits; a few zero signatures. How a hash is mapped to a
// bucket is the table's business (hook VerifBucketIx): the pool first finds an anchor hash for each
// chosen bucket (a guess for the current multiplicative mapping, then plain sampling), learns
// which single bits can be flipped without leaving the bucket, and varies only those.
func pool(rng *rand.Rand, t *transp.Table, n int) []uint64 {
	nb := t.VerifBuckets()
	ix := func(h uint64) int { return t.VerifBucketIx(board.Hash(h)) }
	nbk := min(nb, 3)
	buckets := make([]int, nbk)
	for i := range buckets {
		buckets[i] = rng.IntN(nb)
	}
	// the first and the last buckets are where index arithmetic goes wrong first
	switch rng.IntN(3) {
	case 0:
		buckets[0] = nb - 1
	case 1:
		buckets[0] = nb - 1 - rng.IntN(min(nb, 4))
		if nbk > 1 {
			buckets[1] = 0
		}
	}
	type anchor struct{ h, free uint64 }
	anchors := make([]anchor, nbk)
	for i, b := range buckets {
		h := uint64(uint32((uint64(b)<<32)/uint64(nb)) + 1 + uint32(rng.IntN(8)))
		for try := 0; ix(h) != b && try < 300000; try++ {
			h = rng.Uint64()
		}
		// (if the bucket was not found the anchor simply sits in another bucket)
		a := anchor{h: h}
		for bit := 0; bit < 64; bit++ {
			if ix(h^1<<bit) == ix(h) {
				a.free |= 1 << bit
			}
		}
		anchors[i] = a
	}
	var p []uint64
	for len(p) < n {
		a := anchors[rng.IntN(nbk)]
		h := a.h
		for try := 0; try < 32; try++ {
			// few distinct values in the free bits below the signature, so that keys differing only
			// there are frequent; the signature from a small set
			v := uint64(rng.IntN(24))
			v |= uint64(rng.IntN(3)) << 32
			if rng.IntN(4) == 0 {
				v = rng.Uint64()
			}
			sig := uint64(1 + rng.IntN(10))
			switch rng.IntN(12) {
			case 0:
				sig = uint64(rng.IntN(65536))
			case 1:
				sig = 0
			case 2:
				sig = 0xffff
			case 3:
				sig = 0x8000
			}
			v = v&^(0xffff<<48) | sig<<48
			c := a.h&^a.free | v&a.free
			if ix(c) == ix(a.h) {
				h = c
				break
			}
		}
		p = append(p, h)
	}
	return p
}

var vals = []int{0, 1, -1, inf - 65, inf - 64, inf - 63, -(inf - 65), -(inf - 64), -(inf - 63), inf, -inf, inf - 1, -inf + 1, 500, -500, inf - 30, -inf + 30}

func sequence(r *ev.Run, lc *ev.Local, rng *rand.Rand, size int, nops int, wk int) {
	m := newModel(r, lc, size)
	p := pool(rng, m.t, 120)
	gen := rng.IntN(256)
	sizes := []int{32, 64, 96, 128, 32000, 64000, 1 << 20}
	for i := 0; i < nops && !m.failed; i++ {
		h := p[rng.IntN(len(p))]
		x := rng.IntN(1000)
		switch {
		case x < 500:
			o := op{Op: "insert", Hash: h, Gen: gen, Depth: rng.IntN(64), Ply: rng.IntN(64), Type: rng.IntN(3), Value: vals[rng.IntN(len(vals))]}
			if rng.IntN(3) == 0 {
				o.Value = rng.IntN(2*inf+1) - inf
			}
			if rng.IntN(3) != 0 {
				o.Move = 1 + rng.IntN(32767)
			}
			if rng.IntN(4) == 0 {
				o.Gen = (gen + 255) % 256 // an entry from the previous search
			}
			if e := m.ents[m.keyOf(h)]; m.judged && e != nil && e.alive && rng.IntN(2) == 0 {
				// aim at the keep-deeper boundary: old depth - new depth in {1,2,3,4}
				o.Depth = max(0, min(63, e.d-1-rng.IntN(4)))
				if rng.IntN(4) != 0 {
					o.Gen = e.gen
				}
			}
			m.insert(rng, o)
		case x < 965:
			m.lookup(rng, op{Op: "lookup", Hash: h, Ply: rng.IntN(64)})
		case x < 985:
			gen = (gen + 1) % 256 // next search; wraps 255 -> 0
			lc.C["generation_steps"]++
			if gen == 0 {
				lc.C["generation_wraps"]++
			}
		case x < 988:
			m.clear()
		case x < 990:
			ns := sizes[rng.IntN(len(sizes))]
			m.resize(ns)
			p = pool(rng, m.t, 120)
			if rng.IntN(3) != 0 {
				m.clear()
			}
		case x < 991:
			// resize dance: down, clear, up again, clear - every key stored before must be gone
			old := append([]uint64(nil), p...)
			cur := m.t.VerifBuckets() * 32
			small := sizes[rng.IntN(3)]
			if small >= cur {
				small = 32
			}
			m.resize(small)
			m.clear()
			m.resize(cur)
			m.clear()
			for _, h := range old {
				m.lookup(rng, op{Op: "lookup", Hash: h, Ply: rng.IntN(64)})
			}
			lc.C["resize_down_clear_up_clear_dances"]++
		case x < 993:
			gen = 253 + rng.IntN(3) // jump next to the wrap
		default:
			m.lookup(rng, op{Op: "lookup", Hash: h, Ply: rng.IntN(64)})
		}
		r.Eval(1)
	}
}

func match64Ref(w uint64, key uint16) (bool, [4]bool) {
	var lanes [4]bool
	any := false
	for i := 0; i < 4; i++ {
		if uint16(w>>(16*i)) == key {
			lanes[i] = true
			any = true
		}
	}
	return any, lanes
}

func match64Case(r *ev.Run, w uint64, key uint16) {
	ix, ok := transp.VerifMatch64(w, key)
	any, lanes := match64Ref(w, key)
	r.Eval(1)
	if ok != any || (ok && (ix < 0 || ix > 3 || !lanes[ix])) {
		r.Violation("C15:lane-matcher-wrong", witness{Kind: "match64", Word: fmt.Sprintf("%016x", w), Key: int(key)},
			fmt.Sprintf("match64(%016x, %04x) = (%d,%v); lanes equal to the key: %v", w, key, ix, ok, lanes))
	}
}

func TestCheck(t *testing.T) {
	r := ev.Start("C15")
	if r.Replay != "" {
		replay(t, r)
		r.Finish()
		return
	}
	scale := 1
	switch r.Stage {
	case "asan":
		scale = 8
	case "race":
		scale = 12
	case "checkptr":
		scale = 3
	}
	nseq := r.N(3200, 32000) / scale
	nops := 8000
	nw := ev.Workers()
	lcs := make([]*ev.Local, nw)
	for i := range lcs {
		lcs[i] = ev.NewLocal()
	}
	sizes := []int{32, 64, 96, 128, 160, 32000, 32032, 1 << 20, 1<<20 + 32, 1<<20 + 64, 1<<20 + 96, 2<<20 + 32}
	ev.Parallel(nseq, func(wk, i int) {
		rng := r.RNG("c15-seq", i)
		size := sizes[i%len(sizes)]
		r.Current(wk, map[string]any{"sequence": i, "size": size})
		sequence(r, lcs[wk], rng, size, nops, wk)
		r.Distinct(uint64(i))
		if i%80 == 0 {
			r.Sample(map[string]any{"kind": "op-sequence", "initial_table_bytes": size, "ops": nops, "first_ops": "store/probe/next-generation/clear/resize over a 120-key colliding pool"})
		}
		r.Merge(lcs[wk])
	})
	// direct lane-matcher test
	nm := r.N(4_000_000, 40_000_000) / scale
	ev.Parallel(64, func(wk, i int) {
		rng := r.RNG("c15-m64", i)
		for k := 0; k < nm/64; k++ {
			key := uint16(rng.Uint32())
			switch k % 8 {
			case 0:
				key = 0
			case 1:
				key = 0xffff
			case 2:
				key = 0x8000
			case 3:
				key = 0x7fff
			}
			w := rng.Uint64()
			// plant lanes: equal, key+1, key-1, key^0x8000 in random lanes (borrow patterns)
			for l := 0; l < 4; l++ {
				var v uint16
				switch rng.IntN(7) {
				case 0:
					v = key
				case 1:
					v = key + 1
				case 2:
					v = key - 1
				case 3:
					v = key ^ 0x8000
				case 4:
					v = 0
				default:
					continue
				}
				w = w&^(uint64(0xffff)<<(16*l)) | uint64(v)<<(16*l)
			}
			match64Case(r, w, key)
		}
		r.Count("lane_matcher_cases", int64(nm/64))
	})
	if r.Stage == "main" {
		// exhaustive small slice: every key against words made of {key, key+1, key-1, 0} lanes
		ev.Parallel(64, func(wk, i int) {
			n := 0
			for key := i * 1024; key < (i+1)*1024; key++ {
				opts := [4]uint16{uint16(key), uint16(key) + 1, uint16(key) - 1, 0}
				for c := 0; c < 256; c++ {
					var w uint64
					for l := 0; l < 4; l++ {
						w |= uint64(opts[c>>(2*l)&3]) << (16 * l)
					}
					match64Case(r, w, uint16(key))
					n++
				}
			}
			r.Count("lane_matcher_exhaustive_pattern_cases", int64(n))
		})
	}
	floors := []string{"stores", "probes", "hits", "misses", "evictions", "keep_deeper_exceptions", "null_move_stores_keeping_older_move", "mate_score_stores", "clears", "resizes",
		"generation_wraps", "zero_signature_stores", "hits_through_same_bucket_and_signature_alias", "ops_after_resize_without_clear(memory_safety_only)", "lane_matcher_cases", "resize_down_clear_up_clear_dances", "zero_signature_exact_stores_probed"}
	r.Finish(floors...)
}

func replay(t *testing.T, r *ev.Run) {
	var w witness
	if err := ev.ReadReplay(r.Replay, &w); err != nil {
		t.Fatal(err)
	}
	if w.Kind == "match64" {
		var word uint64
		fmt.Sscanf(w.Word, "%x", &word)
		match64Case(r, word, uint16(w.Key))
		return
	}
	// the recorded tail of operations is replayed on a fresh table of the initial size; the
	// model learns evictions by probing, so a tail is a valid history of its own.
	m := newModel(r, ev.NewLocal(), w.Size)
	rng := rand.New(rand.NewPCG(1, 1))
	for _, o := range w.Ops {
		switch o.Op {
		case "insert":
			m.insert(rng, o)
		case "lookup":
			m.lookup(rng, o)
		case "clear":
			m.clear()
		case "resize":
			m.resize(o.Size)
		}
		if m.failed {
			break
		}
	}
	fmt.Printf("replay: %d operations replayed, violation reproduced=%v\n", len(w.Ops), m.failed)
}
