package c17

import (
	"bytes"
	"fmt"
	"math/rand/v2"
	"strings"
	"testing"

	"github.com/paulsonkoly/chess-3/board"
	"github.com/paulsonkoly/chess-3/chess"
	"github.com/paulsonkoly/chess-3/eval"
	"github.com/paulsonkoly/chess-3/uci"

	"verif/harness/conv"
	"verif/harness/eng"
	"verif/harness/ev"
	"verif/harness/gen"
	"verif/harness/ref"
)

type witness struct {
	Kind    string `json:"kind"`
	FEN     string `json:"fen"`
	Variant string `json:"variant_fen,omitempty"`
}

func ev1(b *board.Board) chess.Score { return eval.Eval(b, &eval.Coefficients) }

func load(fen string) *board.Board {
	b, err := board.FromFEN(fen)
	if err != nil {
		return nil
	}
	return b
}

// knbk builds KNB v K positions with every bishop colour.
func knbk(rng *rand.Rand) (ref.Pos, bool) {
	var p ref.Pos
	p.EP = -1
	p.Full = 1 + rng.IntN(100)
	p.Half = rng.IntN(101)
	p.White = rng.IntN(2) == 0
	sg := int8(1)
	if rng.IntN(2) == 0 {
		sg = -1
	}
	sq := rng.Perm(64)
	p.Sq[sq[0]] = ref.K
	p.Sq[sq[1]] = -ref.K
	p.Sq[sq[2]] = sg * ref.N
	p.Sq[sq[3]] = sg * ref.B
	return p, p.Valid()
}

// minor builds minor-piece-only endings (insufficient material boundary).
func minor(rng *rand.Rand) (ref.Pos, bool) {
	var p ref.Pos
	p.EP = -1
	p.Full = 1 + rng.IntN(100)
	p.Half = rng.IntN(101)
	p.White = rng.IntN(2) == 0
	sq := rng.Perm(64)
	p.Sq[sq[0]] = ref.K
	p.Sq[sq[1]] = -ref.K
	n := rng.IntN(5)
	for i := 0; i < n; i++ {
		v := int8(ref.N)
		if rng.IntN(2) == 0 {
			v = ref.B
		}
		if rng.IntN(2) == 0 {
			v = -v
		}
		p.Sq[sq[2+i]] = v
	}
	return p, p.Valid()
}

func checkPos(r *ev.Run, lc *ev.Local, p *ref.Pos, kind string) {
	fen := p.FEN()
	b := load(fen)
	if b == nil {
		return
	}
	base := ev1(b)
	r.Eval(1)
	lc.C["positions"]++
	// 1. colour symmetry
	m := p.Mirror()
	if mb := load(m.FEN()); mb != nil {
		lc.C["mirror_pairs"]++
		if got := ev1(mb); got != base {
			r.Violation("C17:mirror-asymmetry:"+kind, witness{Kind: kind, FEN: fen, Variant: m.FEN()}, fmt.Sprintf("Eval(%s)=%d but Eval(mirror %s)=%d", fen, base, m.FEN(), got))
		}
	}
	variant := func(what string, q ref.Pos) {
		if !q.Valid() {
			return
		}
		vb := load(q.FEN())
		if vb == nil {
			return
		}
		lc.C["variants_"+what]++
		if got := ev1(vb); got != base {
			r.Violation("C17:depends-on-"+what, witness{Kind: kind, FEN: fen, Variant: q.FEN()}, fmt.Sprintf("Eval(%s)=%d but Eval(%s)=%d: differs only in %s", fen, base, q.FEN(), got, what))
		}
	}
	// 2. castling rights: every subset
	for c := uint8(0); c < 16; c++ {
		if c != p.Castle {
			q := *p
			q.Castle = c
			variant("castling-rights", q)
		}
	}
	// 3. e.p. state: absent, and every valid raw target
	if p.EP >= 0 {
		q := *p
		q.EP = -1
		variant("en-passant", q)
	}
	for f := 0; f < 8; f++ {
		q := *p
		if p.White {
			q.EP = 40 + f
		} else {
			q.EP = 16 + f
		}
		if q.EP != p.EP {
			variant("en-passant", q)
		}
	}
	// 4. fullmove number
	q := *p
	q.Full = p.Full%200 + 1
	variant("fullmove-number", q)
	// 5. previous evaluations: evaluate again
	if again := ev1(b); again != base {
		r.Violation("C17:depends-on-previous-evaluations", witness{Kind: kind, FEN: fen}, fmt.Sprintf("Eval(%s) first %d then %d", fen, base, again))
	}
	// feature counters
	if eval.KNBvK(b) {
		lc.C["knbvk_positions"]++
	}
	if base == 0 {
		lc.C["zero_evals"]++
	}
	if p.PieceCount() == 2 {
		lc.C["bare_kings"]++
	}
	if p.Half > 0 {
		lc.C["nonzero_clock"]++
	}
	r.DistinctStr(p.Key())
}

func TestCheck(t *testing.T) {
	r := ev.Start("C17")
	if err := ref.SelfTest(); err != nil {
		r.HarnessError("%v", err)
		r.Finish()
		t.Fatal(err)
	}
	if r.Replay != "" {
		var w witness
		if err := ev.ReadReplay(r.Replay, &w); err != nil {
			t.Fatal(err)
		}
		p := ref.MustFEN(w.FEN)
		fmt.Printf("replay: Eval(%s)=%d\n", w.FEN, ev1(load(w.FEN)))
		if w.Variant != "" {
			if vb := load(w.Variant); vb != nil {
				fmt.Printf("replay: Eval(%s)=%d\n", w.Variant, ev1(vb))
			}
		}
		checkPos(r, ev.NewLocal(), &p, w.Kind)
		r.Finish()
		return
	}
	nw := ev.Workers()
	lcs := make([]*ev.Local, nw)
	for i := range lcs {
		lcs[i] = ev.NewLocal()
	}
	type src struct {
		name string
		f    func(*rand.Rand) (ref.Pos, bool)
		n    int
	}
	const chunk = 250
	for _, s := range []src{{"dense", gen.Dense, r.N(400000, 24000000)}, {"sparse", gen.Sparse, r.N(400000, 24000000)}, {"adv", gen.Adv, r.N(300000, 16000000)},
		{"castle", gen.Castle, r.N(100000, 6400000)}, {"knbk", knbk, r.N(200000, 12800000)}, {"minor", minor, r.N(200000, 12800000)}} {
		ev.Parallel(s.n/chunk, func(wk, i int) {
			lc := lcs[wk]
			rng := r.RNG("c17-"+s.name, i)
			for k := 0; k < chunk; k++ {
				p, ok := s.f(rng)
				if !ok {
					continue
				}
				if k%3 == 0 {
					p.Half = rng.IntN(101)
				}
				checkPos(r, lc, &p, s.name)
				if k == 0 && i%60 == 0 {
					r.Sample(map[string]any{"source": s.name, "fen": p.FEN(), "eval": int(ev1(load(p.FEN())))})
				}
			}
			r.Merge(lc)
		})
	}
	// hash history / interleaved evaluations: boards reached by moves vs freshly loaded
	corpus := gen.Corpus()
	games := r.N(4000, 240000)
	ev.Parallel(games, func(wk, i int) {
		lc := lcs[wk]
		rng := r.RNG("c17-play", i)
		start := corpus[rng.IntN(len(corpus))]
		steps := gen.Playout(rng, start, 30+rng.IntN(120), gen.BiasRich, 100)
		b := eng.MustBoard(&start)
		for _, st := range steps {
			b.MakeMove(conv.M(st.Move))
			if st.Pos.Half > 100 {
				break
			}
			lb := load(st.Pos.FEN())
			if lb == nil {
				continue
			}
			r.Eval(1)
			lc.C["reached_vs_loaded"]++
			if a, c := ev1(b), ev1(lb); a != c {
				r.Violation("C17:depends-on-hash-history", witness{Kind: "reached", FEN: st.Pos.FEN()}, fmt.Sprintf("%s: reached by moves %d, loaded %d", st.Pos.FEN(), a, c))
			}
		}
		r.Merge(lc)
	})
	// UCI `eval`
	nu := r.N(1500, 80000)
	ev.Parallel(nu, func(wk, i int) {
		rng := r.RNG("c17-uci", i)
		p := gen.AnyPos(rng)
		p.Half %= 101
		b := load(p.FEN())
		if b == nil {
			return
		}
		var out, errb bytes.Buffer
		drv := uci.NewDriver(uci.WithInput(strings.NewReader("position fen "+p.FEN()+"\neval\nquit\n")), uci.WithOutput(&out), uci.WithError(&errb))
		drv.Run()
		r.Eval(1)
		lcs[wk].C["uci_eval"]++
		if got, want := strings.TrimSpace(out.String()), fmt.Sprint(ev1(b)); got != want {
			r.Violation("C17:uci-eval-differs", witness{Kind: "uci", FEN: p.FEN()}, fmt.Sprintf("uci eval printed %q, eval.Eval gives %q", got, want))
		}
		r.Merge(lcs[wk])
	})
	r.Finish("mirror_pairs", "variants_castling-rights", "variants_en-passant", "variants_fullmove-number", "knbvk_positions", "bare_kings", "zero_evals", "nonzero_clock", "reached_vs_loaded", "uci_eval")
}
