package c08

import (
	"fmt"
	"runtime"
	"strings"
	"sync"
	"sync/atomic"
	"testing"

	"github.com/paulsonkoly/chess-3/search"

	"verif/harness/conv"
	"verif/harness/ev"
	"verif/harness/gen"
	"verif/harness/ref"
	"verif/harness/strace"
)

type witness struct {
	Kind      string `json:"kind"`
	Start     string `json:"start_fen"`
	TTBytes   int    `json:"tt_bytes"`
	SoftNodes []int  `json:"soft_node_limits_per_move"`
	FailedAt  int    `json:"failed_at_move"`
	Variant   string `json:"variant"` // which engine pair disagreed
	// RandomReplies: after each engine move a pseudo-random legal reply (seeded by ReplySeed) is
	// played without searching, so roots are not already sitting in the table.
	RandomReplies bool   `json:"random_replies"`
	ReplySeed     uint64 `json:"reply_seed"`
	// NoCounters: the searches are started without WithCounters (as the UCI driver does); node
	// counts are read from the info lines.
	NoCounters bool `json:"no_counters"`
	// Resets: move index -> "clear" (ucinewgame) or "resize:<bytes>" (setoption Hash + clear), applied
	// to all three engines alike before that move: the stored state is reset the same way.
	Resets map[int]string `json:"resets,omitempty"`
}

// run executes one search; without counters the node count is the last reported one.
func run(s *search.Search, root *strace.Root, noCounters bool, opt search.Option) strace.Result {
	b, _ := root.Board()
	if !noCounters {
		return strace.Run(s, b, opt)
	}
	var rec strings.Builder
	sc, mv, pm := s.Go(b, opt, search.WithOutput(&rec))
	res := strace.Result{Score: sc, Move: mv, Ponder: pm}
	res.Lines = strace.SplitLines(rec.String())
	res.Infos, res.Bad = strace.ParseInfos(res.Lines)
	for n := len(res.Infos) - 1; n >= 0; n-- {
		if res.Infos[n].HasNodes {
			res.Nodes = res.Infos[n].Nodes
			break
		}
	}
	return res
}

func stripped(res *strace.Result) []string {
	out := make([]string, len(res.Infos))
	for i, in := range res.Infos {
		out[i] = in.StripTime()
	}
	return out
}

func sameResult(a, b *strace.Result) string {
	var d []string
	if a.Move != b.Move {
		d = append(d, fmt.Sprintf("move %v vs %v", a.Move, b.Move))
	}
	if a.Ponder != b.Ponder {
		d = append(d, fmt.Sprintf("ponder %v vs %v", a.Ponder, b.Ponder))
	}
	if a.Score != b.Score {
		d = append(d, fmt.Sprintf("score %d vs %d", a.Score, b.Score))
	}
	if a.Nodes != b.Nodes {
		d = append(d, fmt.Sprintf("nodes %d vs %d", a.Nodes, b.Nodes))
	}
	return strings.Join(d, ", ")
}

// game plays one game in lock step on three engines:
//
//	A: soft node limits, recording the node count N_i each search ended with
//	B: the same requests replayed with hard budgets N_i
//	C: A's requests repeated
//
// After every move results, info lines (time stripped) and state digests must agree.
func game(r *ev.Run, wk int, w *witness, verbose bool) (ok bool) {
	start := ref.MustFEN(w.Start)
	a, b, c := search.New(w.TTBytes), search.New(w.TTBytes), search.New(w.TTBytes)
	var ms []ref.Move
	fail := func(i int, variant, sig, detail string) {
		wc := *w
		wc.FailedAt, wc.Variant = i, variant
		wc.SoftNodes = w.SoftNodes[:i+1]
		r.Violation("C08:"+sig, wc, detail)
	}
	for i, soft := range w.SoftNodes {
		root := strace.NewRoot(start, ms)
		if root.Final() {
			break
		}
		if act, ok := w.Resets[i]; ok {
			for _, e := range []*search.Search{a, b, c} {
				if act != "clear" {
					var n int
					fmt.Sscanf(act, "resize:%d", &n)
					e.ResizeTT(n)
				}
				e.Clear()
			}
			r.Count("engine_resets_"+strings.SplitN(act, ":", 2)[0], 1)
		}
		r.Current(wk, map[string]any{"start": w.Start, "tt": w.TTBytes, "move": i})
		ra := run(a, &root, w.NoCounters, search.WithSoftNodes(soft))
		n := ra.Nodes
		rb := run(b, &root, w.NoCounters, search.WithNodes(n))
		rc := run(c, &root, w.NoCounters, search.WithSoftNodes(soft))
		if soft <= 50 {
			r.Count("searches_with_tiny_soft_limit", 3)
			if ra.Nodes > soft && len(ra.Infos) > 0 && ra.Infos[0].Nodes > soft {
				r.Count("tiny_soft_limit_already_exceeded_after_depth_0", 1)
			}
		}
		r.Eval(3)
		r.Count("lockstep_moves", 1)
		r.Count("nodes_searched", int64(ra.Nodes+rb.Nodes+rc.Nodes))
		if verbose {
			fmt.Printf("move %d soft %d: A %v nodes %d | B(hard %d) %v nodes %d | C %v nodes %d\n", i, soft, ra.Move, ra.Nodes, n, rb.Move, rb.Nodes, rc.Move, rc.Nodes)
		}
		// (1) same state + same request => same everything
		if d := sameResult(&ra, &rc); d != "" {
			fail(i, "A-vs-C", "same-request-different-result", fmt.Sprintf("move %d of game from %s (soft %d): %s", i, w.Start, soft, d))
			return false
		}
		sa, sc := stripped(&ra), stripped(&rc)
		if strings.Join(sa, "\n") != strings.Join(sc, "\n") {
			fail(i, "A-vs-C", "same-request-different-info-lines", fmt.Sprintf("move %d: A\n  %s\nC\n  %s", i, strings.Join(sa, "\n  "), strings.Join(sc, "\n  ")))
			return false
		}
		if a.VerifDigest() != c.VerifDigest() {
			fail(i, "A-vs-C", "same-request-different-state-left-behind", fmt.Sprintf("move %d: digests %016x vs %016x", i, a.VerifDigest(), c.VerifDigest()))
			return false
		}
		// (2) hard budget never exceeded
		if rb.Nodes > n {
			fail(i, "B", "hard-node-budget-exceeded", fmt.Sprintf("move %d: budget %d, counted %d", i, n, rb.Nodes))
			return false
		}
		// (3) soft-limited search reproduced by the hard budget N
		if d := sameResult(&ra, &rb); d != "" {
			fail(i, "A-vs-B", "hard-budget-replay-differs", fmt.Sprintf("move %d of game from %s: soft-limited search ended after %d nodes; replay with hard budget %d: %s", i, w.Start, n, n, d))
			return false
		}
		sb := stripped(&rb)
		// the replay runs into its budget in the iteration after the last completed one: it may add
		// trailing lines that report no completed iteration (the abort line, currmove lines)
		trimmed := false
		for len(sb) > len(sa) && !rb.Infos[len(sb)-1].HasScore {
			sb = sb[:len(sb)-1]
			trimmed = true
		}
		if trimmed {
			r.Count("replays_with_trailing_abort_line", 1)
		}
		if strings.Join(sa, "\n") != strings.Join(sb, "\n") {
			fail(i, "A-vs-B", "hard-budget-replay-different-info-lines", fmt.Sprintf("move %d: A\n  %s\nB\n  %s", i, strings.Join(sa, "\n  "), strings.Join(stripped(&rb), "\n  ")))
			return false
		}
		if a.VerifDigest() != b.VerifDigest() {
			fail(i, "A-vs-B", "hard-budget-replay-leaves-different-state", fmt.Sprintf("move %d: digests %016x vs %016x (same result and info lines, but the tables / histories left for the next search differ)", i, a.VerifDigest(), b.VerifDigest()))
			return false
		}
		var next ref.Move
		for _, m := range root.Pos.Legal() {
			if conv.M(m) == ra.Move {
				next = m
			}
		}
		if next == 0 {
			break
		}
		ms = append(ms, next)
		if w.RandomReplies {
			nx := strace.NewRoot(start, ms)
			l := nx.Pos.Legal()
			if len(l) == 0 || nx.Final() {
				break
			}
			x := w.ReplySeed + uint64(i)*0x9e3779b97f4a7c15
			x ^= x >> 31
			x *= 0xbf58476d1ce4e5b9
			x ^= x >> 29
			ms = append(ms, l[x%uint64(len(l))])
		}
	}
	return true
}

func TestCheck(t *testing.T) {
	r := ev.Start("C08")
	if err := ref.SelfTest(); err != nil {
		r.HarnessError("%v", err)
		r.Finish()
		t.Fatal(err)
	}
	if r.Replay != "" {
		var x struct {
			Kind string `json:"kind"`
			Game xGame  `json:"game"`
		}
		if err := ev.ReadReplay(r.Replay, &x); err == nil && x.Kind == "cross-process" {
			xReplay(r, x.Game)
			r.Finish()
			return
		}
		var w witness
		if err := ev.ReadReplay(r.Replay, &w); err != nil {
			t.Fatal(err)
		}
		game(r, 0, &w, true)
		r.Finish()
		return
	}
	games := r.N(128, 1280)
	moves := 40
	if r.Stage == "race" {
		games = r.N(16, 240)
		moves = r.N(24, 40)
	}
	corpus := gen.Corpus()
	// CPU burners and a varying GOMAXPROCS: any dependence on scheduling shows as a digest
	// mismatch, any shared package-level state as a race report.
	stopBurn := make(chan struct{})
	var burned atomic.Int64
	var bw sync.WaitGroup
	for i := 0; i < 4; i++ {
		bw.Add(1)
		go func() {
			defer bw.Done()
			x := uint64(1)
			for {
				select {
				case <-stopBurn:
					burned.Add(int64(x & 1))
					return
				default:
				}
				for k := 0; k < 100000; k++ {
					x = x*6364136223846793005 + 1442695040888963407
				}
				runtime.Gosched()
			}
		}()
	}
	old := runtime.GOMAXPROCS(0)
	procs := []int{old, max(2, old/2), 3, old}
	var round atomic.Int64
	ev.Parallel(games, func(wk, i int) {
		rng := r.RNG("c08", i)
		if k := round.Add(1); k%8 == 0 {
			runtime.GOMAXPROCS(procs[int(k/8)%len(procs)])
		}
		p := corpus[rng.IntN(len(corpus))]
		if rng.IntN(4) == 0 {
			p = gen.AnyPos(rng)
		}
		p.Half %= 60
		w := &witness{Kind: "lockstep-game", Start: p.FEN(), TTBytes: []int{32000, 1 << 20, 1 << 20, 8 << 20}[rng.IntN(4)]}
		w.RandomReplies, w.ReplySeed, w.NoCounters = rng.IntN(2) == 0, rng.Uint64(), rng.IntN(2) == 0
		for k := 0; k < moves; k++ {
			w.SoftNodes = append(w.SoftNodes, 2000+rng.IntN(18000))
			if rng.IntN(5) == 0 || (k == 0 && rng.IntN(2) == 0) {
				w.SoftNodes[k] = 1 + rng.IntN(4+26*rng.IntN(2)) // tiny limits: the search stops at the first completed depth with a move
			}
		}
		if rng.IntN(3) == 0 {
			w.Resets = map[int]string{}
			for k := 0; k < 2; k++ {
				at := 1 + rng.IntN(moves)
				if rng.IntN(2) == 0 {
					w.Resets[at] = "clear"
				} else {
					w.Resets[at] = fmt.Sprintf("resize:%d", []int{32000, 64000, 1 << 20, 2 << 20}[rng.IntN(4)])
				}
			}
		}
		if w.NoCounters {
			r.Count("games_without_counters_option", 1)
		}
		if w.RandomReplies {
			r.Count("games_with_unsearched_replies", 1)
		}
		if game(r, wk, w, false) {
			r.Count("games_completed", 1)
		}
		r.DistinctStr(p.Key() + fmt.Sprint(i))
		if i%12 == 0 {
			r.Sample(map[string]any{"kind": "lockstep-game", "start": p.FEN(), "tt_bytes": w.TTBytes, "soft_node_limits": w.SoftNodes[:8]})
		}
	})
	// the hard budget while pondering: limits are ignored until ponderhit, but the node counter
	// (and the nodes reported in info lines) must never pass the budget
	np := r.N(600, 6000)
	ev.Parallel(np, func(wk, i int) {
		rng := r.RNG("c08-ponder", i)
		root, _ := strace.RandomRoot(rng, []string{"fresh", "played", "dense"}[rng.IntN(3)])
		if root.Final() {
			return
		}
		b, err := root.Board()
		if err != nil {
			return
		}
		q := strace.Request{Nodes: 1 + rng.IntN(3000), Ponder: "hit", PonderUs: []int{0, 0, 50, 500, 3000}[rng.IntN(5)]}
		s := search.New(1 << 20)
		res := strace.Exec(s, b, q)
		r.Eval(1)
		r.Count("ponder_searches_with_node_budget", 1)
		top := res.Nodes
		for _, in := range res.Infos {
			top = max(top, in.Nodes)
		}
		if top > q.Nodes {
			r.Violation("C08:hard-node-budget-exceeded-while-pondering", map[string]any{"kind": "ponder-budget", "root": root.Pos.FEN(), "request": q},
				fmt.Sprintf("root %s: hard budget %d, ponderhit after %d us: counted / reported nodes reach %d", root.Pos.FEN(), q.Nodes, q.PonderUs, top))
		}
	})
	runtime.GOMAXPROCS(old)
	close(stopBurn)
	bw.Wait()
	floors := []string{"lockstep_moves", "games_completed", "replays_with_trailing_abort_line", "nodes_searched", "games_without_counters_option", "games_with_unsearched_replies", "tiny_soft_limit_already_exceeded_after_depth_0", "ponder_searches_with_node_budget"}
	if r.Stage != "race" {
		// the same requests in other processes of the same binary
		xCompare(r, xGames(r, r.N(32, 320), 12))
		if len(r.InconclusiveList()) == 0 {
			floors = append(floors, "cross_process_searches_compared", "cross_process_child_processes")
		}
	}
	r.Count("concurrent_games_goroutines", int64(ev.Workers()))
	r.Finish(floors...)
}
