package c08

import (
	"context"
	"encoding/json"
	"fmt"
	"hash/fnv"
	"os"
	"os/exec"
	"path/filepath"
	"strings"
	"testing"
	"time"

	"github.com/paulsonkoly/chess-3/search"

	"verif/harness/conv"
	"verif/harness/ev"
	"verif/harness/gen"
	"verif/harness/ref"
	"verif/harness/strace"
)

// Cross-process reproducibility. The crash-reproduction workflow replays `go nodes N` requests in a
// NEW process: the result of a search must not depend on anything that differs between two runs of
// the same binary (auto-seeded random sources, map iteration order, addresses). One engine per game
// plays with hard node budgets; the transcript (move, score, nodes, info lines without wall-clock
// fields, digest of the state left behind) of every search is compared with the transcripts two
// child processes produce from the same specification.

type xGame struct {
	Start     string `json:"start_fen"`
	TTBytes   int    `json:"tt_bytes"`
	Budgets   []int  `json:"node_budgets"`
	ReplySeed uint64 `json:"reply_seed"`
}

// xTranscript plays the game on a fresh engine and returns one line per search.
func xTranscript(g *xGame) []string {
	start := ref.MustFEN(g.Start)
	s := search.New(g.TTBytes)
	var ms []ref.Move
	var out []string
	for i, n := range g.Budgets {
		root := strace.NewRoot(start, ms)
		if root.Final() {
			break
		}
		res := run(s, &root, false, search.WithNodes(n))
		h := fnv.New64a()
		for _, l := range stripped(&res) {
			h.Write([]byte(l))
			h.Write([]byte{'\n'})
		}
		out = append(out, fmt.Sprintf("search %d budget %d: move %v ponder %v score %d nodes %d infolines %d/%016x state %016x", i, n, res.Move, res.Ponder, res.Score, res.Nodes, len(res.Infos), h.Sum64(), s.VerifDigest()))
		var next ref.Move
		for _, m := range root.Pos.Legal() {
			if conv.M(m) == res.Move {
				next = m
			}
		}
		if next == 0 {
			break
		}
		ms = append(ms, next)
		nx := strace.NewRoot(start, ms)
		l := nx.Pos.Legal()
		if len(l) == 0 || nx.Final() {
			break
		}
		x := g.ReplySeed + uint64(i)*0x9e3779b97f4a7c15
		x ^= x >> 31
		x *= 0xbf58476d1ce4e5b9
		x ^= x >> 29
		ms = append(ms, l[x%uint64(len(l))])
	}
	return out
}

// TestXProcChild is the child side: it only runs when the parent asks for it.
func TestXProcChild(t *testing.T) {
	spec, out := os.Getenv("VERIF_C08_XPROC_SPEC"), os.Getenv("VERIF_C08_XPROC_OUT")
	if spec == "" || out == "" {
		t.Skip("child side of the cross-process comparison")
	}
	var games []xGame
	raw, err := os.ReadFile(spec)
	if err != nil {
		t.Fatal(err)
	}
	if err := json.Unmarshal(raw, &games); err != nil {
		t.Fatal(err)
	}
	res := make([][]string, len(games))
	ev.Parallel(len(games), func(wk, i int) { res[i] = xTranscript(&games[i]) })
	enc, _ := json.Marshal(res)
	if err := os.WriteFile(out, enc, 0o644); err != nil {
		t.Fatal(err)
	}
}

// xChild runs the specification in a new process of this test binary.
func xChild(dir string, k int, spec string) ([][]string, string, error) {
	out := filepath.Join(dir, fmt.Sprintf("xproc-out-%d.json", k))
	ctx, cancel := context.WithTimeout(context.Background(), 20*time.Minute)
	defer cancel()
	cmd := exec.CommandContext(ctx, os.Args[0], "-test.run=^TestXProcChild$", "-test.count=1")
	cmd.Env = append(os.Environ(), "VERIF_C08_XPROC_SPEC="+spec, "VERIF_C08_XPROC_OUT="+out)
	o, err := cmd.CombinedOutput()
	if err != nil {
		return nil, string(o), err
	}
	raw, err := os.ReadFile(out)
	if err != nil {
		return nil, string(o), err
	}
	var res [][]string
	err = json.Unmarshal(raw, &res)
	os.Remove(out)
	return res, string(o), err
}

func xCompare(r *ev.Run, games []xGame) {
	dir := os.Getenv("VERIF_OUT")
	if dir == "" {
		dir = os.TempDir()
	}
	spec := filepath.Join(dir, "xproc-spec.json")
	enc, _ := json.Marshal(games)
	if err := os.WriteFile(spec, enc, 0o644); err != nil {
		r.HarnessError("xproc spec: %v", err)
		return
	}
	defer os.Remove(spec)
	mine := make([][]string, len(games))
	ev.Parallel(len(games), func(wk, i int) { mine[i] = xTranscript(&games[i]) })
	for k := 1; k <= 2; k++ {
		theirs, out, err := xChild(dir, k, spec)
		if err != nil {
			// a child that dies inside chess-3 is C06's business; here it only means nothing was compared
			r.Inconclusive(fmt.Sprintf("cross-process child %d did not deliver a transcript: %v\n%s", k, err, out[:min(len(out), 2000)]))
			return
		}
		r.Count("cross_process_child_processes", 1)
		for i := range games {
			r.Eval(len(mine[i]))
			r.Count("cross_process_searches_compared", int64(len(mine[i])))
			a, b := mine[i], theirs[i]
			for j := 0; j < max(len(a), len(b)); j++ {
				la, lb := "<none>", "<none>"
				if j < len(a) {
					la = a[j]
				}
				if j < len(b) {
					lb = b[j]
				}
				if la != lb {
					g := games[i]
					g.Budgets = g.Budgets[:min(j+1, len(g.Budgets))]
					r.Violation("C08:different-process-different-result", map[string]any{"kind": "cross-process", "game": g},
						fmt.Sprintf("game from %s (table %d bytes), hard node budgets %v: the same requests on a fresh engine give different transcripts in two processes of the same binary\nthis process : %s\nchild process: %s", g.Start, g.TTBytes, g.Budgets, la, lb))
					break
				}
			}
		}
	}
	r.Count("cross_process_games", int64(len(games)))
}

// xGames draws the specification: starts with double pushes and en-passant captures close (the
// e.p. state is part of the position identity), small tables (pressure) and large ones.
func xGames(r *ev.Run, n, moves int) []xGame {
	corpus := gen.Corpus()
	var games []xGame
	for i := 0; i < n; i++ {
		rng := r.RNG("c08-xproc", i)
		p := corpus[rng.IntN(len(corpus))]
		switch rng.IntN(3) {
		case 0:
			if q, ok := gen.PrePush(rng); ok {
				p = q
			}
		case 1:
			if q, ok := gen.Adv(rng); ok && len(q.Legal()) > 0 {
				p = q
			}
		}
		p.Half %= 60
		g := xGame{Start: p.FEN(), TTBytes: []int{32000, 64000, 1 << 20, 8 << 20}[rng.IntN(4)], ReplySeed: rng.Uint64()}
		for k := 0; k < moves; k++ {
			g.Budgets = append(g.Budgets, 500+rng.IntN(30000))
		}
		games = append(games, g)
	}
	return games
}

func xReplay(r *ev.Run, g xGame) {
	fmt.Println(strings.Join(xTranscript(&g), "\n"))
	xCompare(r, []xGame{g})
}
