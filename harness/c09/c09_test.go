package c09

import (
	"fmt"
	"io"
	"math/rand/v2"
	"testing"

	"github.com/paulsonkoly/chess-3/board"
	"github.com/paulsonkoly/chess-3/move"
	"github.com/paulsonkoly/chess-3/search"

	"verif/harness/eng"
	"verif/harness/ev"
	"verif/harness/gen"
	"verif/harness/ref"
)

type witness struct {
	Kind string `json:"kind"`
	FEN  string `json:"fen"`
}

// checkPos applies the fast tests on their own side of the in-check split.
func checkPos(r *ev.Run, lc *ev.Local, p *ref.Pos, b *board.Board, kind string) {
	n := len(p.Legal())
	r.Eval(1)
	if p.InCheck(p.White) {
		lc.C["in_check_positions"]++
		got := b.IsCheckmate()
		if n == 0 {
			lc.C["checkmates"]++
		}
		if p.EP >= 0 {
			lc.C["in_check_with_en_passant"]++
		}
		if got != (n == 0) {
			r.Violation(fmt.Sprintf("C09:IsCheckmate=%v-but-%d-legal-moves", got, min(n, 1)), witness{Kind: kind, FEN: p.FEN()},
				fmt.Sprintf("%s: in check, IsCheckmate()=%v, reference legal moves %d %v", p.FEN(), got, n, eng.RefNames(p.Legal())))
		}
	} else {
		lc.C["not_in_check_positions"]++
		got := b.IsStalemate()
		if n == 0 {
			lc.C["stalemates"]++
		}
		if p.EP >= 0 {
			lc.C["not_in_check_with_en_passant"]++
		}
		if got != (n == 0) {
			r.Violation(fmt.Sprintf("C09:IsStalemate=%v-but-%d-legal-moves", got, min(n, 1)), witness{Kind: kind, FEN: p.FEN()},
				fmt.Sprintf("%s: not in check, IsStalemate()=%v, reference legal moves %d %v", p.FEN(), got, n, eng.RefNames(p.Legal())))
		}
		if n <= 2 {
			lc.C["not_in_check_with_at_most_2_moves"]++
		}
	}
	if n <= 3 || p.InCheck(p.White) {
		r.DistinctStr(p.Key())
	}
}

func TestCheck(t *testing.T) {
	r := ev.Start("C09")
	if err := ref.SelfTest(); err != nil {
		r.HarnessError("%v", err)
		r.Finish()
		t.Fatal(err)
	}
	if r.Replay != "" {
		var w witness
		if err := ev.ReadReplay(r.Replay, &w); err != nil {
			t.Fatal(err)
		}
		p := ref.MustFEN(w.FEN)
		p = p.Normalised()
		b := eng.MustBoard(&p)
		fmt.Printf("replay %s: in check %v, legal %v, IsCheckmate %v IsStalemate %v\n", p.FEN(), p.InCheck(p.White), eng.RefNames(p.Legal()), b.IsCheckmate(), b.IsStalemate())
		checkPos(r, ev.NewLocal(), &p, b, w.Kind)
		r.Finish()
		return
	}
	nw := ev.Workers()
	lcs := make([]*ev.Local, nw)
	for i := range lcs {
		lcs[i] = ev.NewLocal()
	}
	load := func(p *ref.Pos) *board.Board {
		b, err := board.FromFEN(p.FEN())
		if err != nil {
			return nil
		}
		return b
	}
	// exhaustive 3-men classes
	classes := [][]int8{{ref.Q}, {ref.R}, {ref.B}, {ref.N}, {ref.P}}
	ev.Parallel(len(classes), func(wk, i int) {
		lc := lcs[wk]
		n := gen.Small(classes[i], false, 1, 0, func(p ref.Pos) {
			if b := load(&p); b != nil {
				checkPos(r, lc, &p, b, "small3")
			}
		})
		lc.C["exhaustive_3men_positions"] += int64(n)
		r.Merge(lc)
	})
	// strided 4-5 men classes
	four := [][]int8{{ref.Q, -ref.R}, {ref.R, -ref.P}, {ref.P, -ref.P}, {ref.B, ref.N}, {ref.R, ref.R}, {ref.Q, ref.Q}, {ref.Q, -ref.Q}, {ref.P, ref.P}, {ref.Q, -ref.P}, {ref.R, -ref.B}}
	stride := r.N(53, 5)
	ev.Parallel(len(four)*8, func(wk, i int) {
		lc := lcs[wk]
		cl := four[i/8]
		n := gen.Small(cl, true, stride*8, (i%8)*stride+int(r.Seed%uint64(stride)), func(p ref.Pos) {
			if b := load(&p); b != nil {
				checkPos(r, lc, &p, b, "small4")
			}
		})
		lc.C["strided_4men_positions"] += int64(n)
		r.Merge(lc)
	})
	// adversarial, dense, sparse
	type src struct {
		name string
		f    func(*rand.Rand) (ref.Pos, bool)
		n    int
	}
	const chunk = 500
	for _, s := range []src{{"adv", gen.Adv, r.N(2400000, 96000000)}, {"dense", gen.Dense, r.N(600000, 24000000)}, {"sparse", gen.Sparse, r.N(600000, 24000000)}} {
		ev.Parallel(s.n/chunk, func(wk, i int) {
			lc := lcs[wk]
			rng := r.RNG("c09-"+s.name, i)
			for k := 0; k < chunk; k++ {
				p, ok := s.f(rng)
				if !ok {
					continue
				}
				if b := load(&p); b != nil {
					checkPos(r, lc, &p, b, s.name)
					lc.C["positions_"+s.name]++
					if k == 0 && i%200 == 0 {
						r.Sample(map[string]any{"source": s.name, "fen": p.FEN(), "in_check": p.InCheck(p.White), "legal": len(p.Legal())})
					}
				}
			}
			r.Merge(lc)
		})
	}
	// quiescence-shaped descents: the only caller is the quiescence search, so follow noisy-move
	// sequences (optionally after a null move) from search roots and from reported PV ends.
	corpus := gen.Corpus()
	nd := r.N(30000, 1200000)
	ev.Parallel(nd, func(wk, i int) {
		lc := lcs[wk]
		rng := r.RNG("c09-q", i)
		p := corpus[rng.IntN(len(corpus))]
		if rng.IntN(2) == 0 {
			p = gen.AnyPos(rng)
		}
		if st := gen.Playout(rng, p, rng.IntN(30), gen.BiasRich, 100); len(st) > 0 {
			p = st[len(st)-1].Pos
		}
		if i%10 == 0 && p.Half < 90 && len(p.Legal()) > 0 {
			// follow the engine's own PV to its end first
			b := eng.MustBoard(&p)
			var pvw pvWriter
			s := search.New(1 << 16)
			s.Go(b, search.WithNodes(3000), search.WithOutput(&pvw))
			for _, name := range pvw.last {
				var mv ref.Move
				for _, l := range p.Legal() {
					if l.String() == name {
						mv = l
					}
				}
				if mv == 0 {
					break
				}
				p = p.Make(mv)
				p = p.Normalised()
			}
			lc.C["descents_from_pv_ends"]++
		}
		if rng.IntN(4) == 0 && !p.InCheck(p.White) {
			// null move: other side to move, no e.p.
			q := p
			q.White = !q.White
			q.EP = -1
			if q.Valid() {
				p = q
				lc.C["descents_after_null_move"]++
			}
		}
		for d := 0; d < 12; d++ {
			if b := load(&p); b != nil {
				checkPos(r, lc, &p, b, "qdescent")
				lc.C["positions_quiescence_descent"]++
			}
			var noisy []ref.Move
			for _, m := range p.Legal() {
				if p.IsCapture(m) || m.Promo() != 0 {
					noisy = append(noisy, m)
				}
			}
			if len(noisy) == 0 {
				break
			}
			p = p.Make(noisy[rng.IntN(len(noisy))])
			p = p.Normalised()
		}
		r.Merge(lc)
	})
	r.SetExhaustive(false)
	r.Finish("checkmates", "stalemates", "in_check_with_en_passant", "not_in_check_with_en_passant", "exhaustive_3men_positions", "strided_4men_positions",
		"positions_quiescence_descent", "descents_after_null_move", "descents_from_pv_ends")
}

type pvWriter struct{ last []string }

func (w *pvWriter) Write(b []byte) (int, error) {
	s := string(b)
	for i := 0; i+4 <= len(s); i++ {
		if s[i:i+4] == " pv " {
			var f []string
			cur := ""
			for _, c := range s[i+4:] {
				if c == ' ' || c == '\n' {
					if cur != "" {
						f = append(f, cur)
					}
					cur = ""
				} else {
					cur += string(c)
				}
			}
			if cur != "" {
				f = append(f, cur)
			}
			if len(f) > 0 {
				w.last = f
			}
		}
	}
	return len(b), nil
}

var _ io.Writer = (*pvWriter)(nil)
var _ = move.Move(0)
