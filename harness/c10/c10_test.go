package c10

import (
	"fmt"
	"strings"
	"testing"
	"time"

	"github.com/paulsonkoly/chess-3/board"

	"verif/harness/conv"
	"verif/harness/eng"
	"verif/harness/ev"
	"verif/harness/gen"
	"verif/harness/ref"
)

type witness struct {
	Kind     string   `json:"kind"`
	Start    string   `json:"start_fen"`
	StartPos bool     `json:"startpos"`
	Moves    []string `json:"moves"`
}

func placementOf(key string) string { return key[:strings.IndexByte(key, ' ')+2] }

// history replays the moves on one engine board and compares Threefold() with the true count.
func history(r *ev.Run, lc *ev.Local, kind string, start ref.Pos, startpos bool, moves []string, verbose bool) (finalCount int, final ref.Pos, ok bool) {
	var b *board.Board
	if startpos {
		b = board.StartPos()
	} else {
		var err error
		b, err = board.FromFEN(start.FEN())
		if err != nil {
			return 0, start, false
		}
	}
	counts := map[string]int{}
	placements := map[string]int{}
	cur := start
	// position identity is by e.p. CAPTURABILITY: a raw but non-capturable target in the start
	// FEN does not make the start position a different position
	sn := start.Normalised()
	startKey := sn.Key()
	counts[startKey] = 1
	placements[placementOf(startKey)] = 1
	finalCount = 1
	for k, name := range moves {
		var m ref.Move
		for _, l := range cur.Legal() {
			if l.String() == name {
				m = l
			}
		}
		if m == 0 {
			r.HarnessError("history move %s not legal in %s", name, cur.FEN())
			return 0, cur, false
		}
		raw := cur.Make(m)
		nx := raw.Normalised()
		b.MakeMove(conv.M(m))
		key := nx.Key()
		counts[key]++
		pk := placementOf(key)
		placements[pk]++
		want := min(3, counts[key])
		got := int(b.Threefold())
		r.Eval(1)
		lc.C["repetition_checks"]++
		switch {
		case counts[key] == 2:
			lc.C["second_occurrences"]++
		case counts[key] == 3:
			lc.C["third_occurrences"]++
		case counts[key] > 3:
			lc.C["fourth_or_later_occurrences"]++
		}
		if placements[pk] > counts[key] {
			lc.C["same_placement_but_different_rights_or_ep"]++
		}
		if raw.EP >= 0 && nx.EP < 0 {
			lc.C["moves_with_suppressed_ep_target"]++
		}
		if nx.EP >= 0 {
			lc.C["positions_with_ep_right"]++
		}
		if verbose {
			fmt.Printf("%3d %-6s Threefold()=%d true=%d %s\n", k+1, name, got, counts[key], nx.FEN())
		}
		if got != want {
			tag := ""
			if b.FEN() != nx.FEN() {
				tag = ":successor-differs-from-reference(C02)"
			}
			r.Violation(fmt.Sprintf("C10:Threefold=%d-true-count=%d%s", got, want, tag), witness{Kind: kind, Start: start.FEN(), StartPos: startpos, Moves: moves[:k+1]},
				fmt.Sprintf("after %d plies from %s: Threefold()=%d, position %s occurred %d times (engine fen %s)", k+1, start.FEN(), got, key, counts[key], b.FEN()))
			return 0, nx, false
		}
		cur = nx
		finalCount = counts[key]
	}
	return finalCount, cur, true
}

func uciCase(r *ev.Run, lc *ev.Local, start ref.Pos, startpos bool, moves []string, count int, final ref.Pos) {
	var cmd strings.Builder
	if startpos {
		cmd.WriteString("position startpos")
	} else {
		cmd.WriteString("position fen " + start.FEN())
	}
	if len(moves) > 0 {
		cmd.WriteString(" moves " + strings.Join(moves, " "))
	}
	// behave like a conforming GUI: quit (or end of input) is only sent after bestmove arrived,
	// otherwise it may abort the search, and an aborted search may return the fallback move.
	s := eng.NewSession()
	s.Send(cmd.String())
	s.Send("go depth 1 nodes 2000")
	lines, ok := s.Until("bestmove", 120*time.Second)
	closed := s.Close(60 * time.Second)
	if !ok || !closed {
		r.Inconclusive(fmt.Sprintf("uci: no bestmove / no termination before the watchdog (ok=%v closed=%v)", ok, closed))
		return
	}
	bm := ""
	if f := strings.Fields(lines[len(lines)-1]); len(f) > 1 {
		bm = f[1]
	}
	r.Eval(1)
	lc.C["uci_histories"]++
	final_ := count >= 3 || final.Half >= 100 || len(final.Legal()) == 0
	if count >= 3 {
		lc.C["uci_roots_final_by_repetition"]++
	}
	if (bm == "0000") != final_ {
		r.Violation(fmt.Sprintf("C10:uci-root-final=%v-bestmove=%s", final_, map[bool]string{true: "0000", false: "move"}[bm == "0000"]),
			witness{Kind: "uci", Start: start.FEN(), StartPos: startpos, Moves: moves},
			fmt.Sprintf("%s ... (%d moves): true repetition count %d, clock %d, legal moves %d => root final=%v, but bestmove %q", strings.SplitN(cmd.String(), " moves", 2)[0], len(moves), count, final.Half, len(final.Legal()), final_, bm))
	}
}

func TestCheck(t *testing.T) {
	r := ev.Start("C10")
	if err := ref.SelfTest(); err != nil {
		r.HarnessError("%v", err)
		r.Finish()
		t.Fatal(err)
	}
	if r.Replay != "" {
		var w witness
		if err := ev.ReadReplay(r.Replay, &w); err != nil {
			t.Fatal(err)
		}
		lc := ev.NewLocal()
		st := ref.MustFEN(w.Start)
		c, f, ok := history(r, lc, w.Kind, st, w.StartPos, w.Moves, true)
		if ok && w.Kind == "uci" {
			uciCase(r, lc, st, w.StartPos, w.Moves, c, f)
		}
		r.Finish()
		return
	}
	nw := ev.Workers()
	lcs := make([]*ev.Local, nw)
	for i := range lcs {
		lcs[i] = ev.NewLocal()
	}
	corpus := gen.Corpus()
	games := r.N(16000, 480000)
	ev.Parallel(games, func(wk, i int) {
		lc := lcs[wk]
		rng := r.RNG("c10", i)
		var start ref.Pos
		startpos := false
		switch rng.IntN(6) {
		case 5:
			// start FEN with a RAW e.p. target (possibly not capturable), as many GUIs write it
			if q, ok := gen.RawEP(rng); ok {
				start = q
				lc.C["histories_from_raw_ep_fen"]++
			} else {
				start = corpus[rng.IntN(len(corpus))]
			}
		case 0:
			start, startpos = corpus[0], true
		case 1:
			start = gen.AnyPos(rng)
		case 2:
			if q, ok := gen.PrePush(rng); ok {
				start = q
			} else {
				start = corpus[rng.IntN(len(corpus))]
			}
		default:
			start = corpus[rng.IntN(len(corpus))]
		}
		start.Half = start.Half % 101
		var steps []gen.Step
		kind := "shuffle"
		if rng.IntN(5) == 0 {
			kind = "playout"
			steps = gen.Playout(rng, start, 40+rng.IntN(200), gen.BiasRich, 150)
		} else {
			steps = gen.Shuffle(rng, start, 30+rng.IntN(570), 0.35+0.6*rng.Float64(), 150)
		}
		ms := make([]string, len(steps))
		for k, s := range steps {
			ms[k] = s.Move.String()
		}
		c, f, ok := history(r, lc, kind, start, startpos, ms, false)
		// UCI path on a sample, cut at a random prefix so that roots with count 1, 2 and 3 all occur
		if ok && i%8 == 0 && len(ms) > 0 {
			cut := 1 + rng.IntN(len(ms))
			c, f, ok = history(r, ev.NewLocal(), kind, start, startpos, ms[:cut], false)
			if ok {
				uciCase(r, lc, start, startpos, ms[:cut], c, f)
			}
		}
		_ = c
		_ = f
		r.DistinctStr(start.Key() + strings.Join(ms, ","))
		if i%400 == 0 {
			r.Sample(map[string]any{"kind": kind, "start": start.FEN(), "plies": len(ms), "moves": strings.Join(ms[:min(len(ms), 16)], " ")})
		}
		r.Merge(lc)
	})
	// transient / suppressed e.p. rights: start one ply before a double push that lands next to an
	// enemy pawn, force that push, then oscillate so that the position after the push recurs.
	pushes := r.N(300000, 9000000)
	ev.Parallel(pushes/100, func(wk, i int) {
		lc := lcs[wk]
		rng := r.RNG("c10-push", i)
		for k := 0; k < 100; k++ {
			start, ok := gen.PrePush(rng)
			if !ok {
				continue
			}
			var cands []ref.Move
			for _, m := range start.Legal() {
				v := start.Sq[m.From()]
				if (v == ref.P || v == -ref.P) && (m.To()-m.From() == 16 || m.From()-m.To() == 16) {
					to := m.To()
					for _, df := range []int{-1, 1} {
						f := to%8 + df
						if f >= 0 && f < 8 && start.Sq[(to/8)*8+f] == -v {
							cands = append(cands, m)
							break
						}
					}
				}
			}
			if len(cands) == 0 {
				continue
			}
			m := cands[rng.IntN(len(cands))]
			raw := start.Make(m)
			after := raw.Normalised()
			steps := gen.Shuffle(rng, after, 4+rng.IntN(12), 0.9, 150)
			ms := []string{m.String()}
			recur := false
			for _, s := range steps {
				ms = append(ms, s.Move.String())
				if s.Pos.Key() == after.Key() {
					recur = true
				}
			}
			if recur {
				if after.EP < 0 {
					lc.C["recurrences_of_position_after_push_with_suppressed_ep"]++
				} else {
					lc.C["recurrences_of_position_after_push_with_ep_right_attempted"]++
				}
			}
			history(r, lc, "forced-push", start, false, ms, false)
			lc.C["forced_push_histories"]++
		}
		r.Merge(lc)
	})
	r.Finish("recurrences_of_position_after_push_with_suppressed_ep", "repetition_checks", "second_occurrences", "third_occurrences", "fourth_or_later_occurrences", "same_placement_but_different_rights_or_ep",
		"moves_with_suppressed_ep_target", "positions_with_ep_right", "uci_histories", "uci_roots_final_by_repetition")
}
