package c14

import (
	"bufio"
	"fmt"
	"io"
	"math/rand/v2"
	"strings"
	"sync"
	"testing"
	"testing/synctest"
	"time"

	"github.com/paulsonkoly/chess-3/board"
	"github.com/paulsonkoly/chess-3/chess"
	"github.com/paulsonkoly/chess-3/move"
	"github.com/paulsonkoly/chess-3/search"
	"github.com/paulsonkoly/chess-3/uci"

	"verif/harness/ev"
)

type clock struct {
	Wtime int64 `json:"wtime"`
	Btime int64 `json:"btime"`
	Winc  int64 `json:"winc"`
	Binc  int64 `json:"binc"`
	Mtime int64 `json:"movetime"`
	Black bool  `json:"black_to_move"`
}

type witness struct {
	Kind   string `json:"kind"`
	Clock  clock  `json:"clock"`
	Other  *clock `json:"other_clock,omitempty"`
	Ponder bool   `json:"ponder,omitempty"`
}

// margin is the engine's own safety margin (an exported constant of the driver): the property asks
// that *the* margin is kept, not that it has a particular value; it must be positive though.
const margin int64 = uci.TimeSafetyMargin

func (c clock) own() (r, inc int64) {
	if c.Black {
		return c.Btime, c.Binc
	}
	return c.Wtime, c.Winc
}

func (c clock) stm() chess.Color {
	if c.Black {
		return chess.Black
	}
	return chess.White
}

// judge applies the inequalities of the statement to an observed (soft, hard) pair.
func judge(c clock, soft, hard int64) (sig, detail string) {
	r, _ := c.own()
	switch {
	case c.Mtime > 0:
		if soft != c.Mtime || hard != c.Mtime {
			return "movetime-not-honoured", fmt.Sprintf("movetime %d: soft %d hard %d", c.Mtime, soft, hard)
		}
	case r >= 1:
		if hard <= 0 {
			return "deadline-not-positive", fmt.Sprintf("remaining %d: hard deadline %d", r, hard)
		}
		if hard > r {
			return "deadline-after-flag-fall", fmt.Sprintf("remaining %d: hard deadline %d", r, hard)
		}
		if r > margin && hard > r-margin {
			return "safety-margin-not-kept", fmt.Sprintf("remaining %d > margin %d: hard deadline %d > %d", r, margin, hard, r-margin)
		}
	}
	return "", ""
}

func limits(c clock) (bool, int64, int64) {
	return uci.VerifLimits(c.Wtime, c.Btime, c.Winc, c.Binc, c.Mtime, c.stm())
}

func hookCase(r *ev.Run, lc *ev.Local, c clock) {
	timed, soft, hard := limits(c)
	r.Eval(1)
	lc.C["hook_cases"]++
	own, _ := c.own()
	if !timed {
		if own >= 1 || c.Mtime > 0 {
			r.Violation("C14:clock-ignored", witness{Kind: "hook", Clock: c}, fmt.Sprintf("%+v: not treated as timed", c))
		}
		return
	}
	if sig, d := judge(c, soft, hard); sig != "" {
		r.Violation("C14:"+sig, witness{Kind: "hook", Clock: c}, fmt.Sprintf("%+v: %s (soft %d)", c, d, soft))
		return
	}
	if own > margin && own < 2*margin {
		lc.C["hook_cases_between_margin_and_twice_margin"]++
	}
	if own <= margin {
		lc.C["hook_cases_at_or_below_margin"]++
	}
	// the deadline depends only on the mover's own clock
	for _, o := range []int64{0, 1, own, 1_000_000_000_000} {
		for _, oi := range []int64{0, 777, 1_000_000_000} {
			d := c
			if c.Black {
				d.Wtime, d.Winc = o, oi
			} else {
				d.Btime, d.Binc = o, oi
			}
			t2, s2, h2 := limits(d)
			lc.C["opponent_clock_variants"]++
			if t2 != timed || s2 != soft || h2 != hard {
				r.Violation("C14:depends-on-opponent-clock", witness{Kind: "hook", Clock: c, Other: &d},
					fmt.Sprintf("%+v gives soft %d hard %d, but with only the opponent's clock changed (%+v) soft %d hard %d", c, soft, hard, d, s2, h2))
				return
			}
		}
	}
}

// ---- end to end in virtual time: real driver, blocking mock search

type mock struct {
	oddPly  bool // the search is inside the tree at an odd ply (side to move flipped) while it waits
	mu      sync.Mutex
	opts    search.Options
	started time.Time
	stopped time.Time
	entered chan struct{}
}

func (m *mock) Clear()       {}
func (m *mock) ResizeTT(int) {}
func (m *mock) Go(b *board.Board, opts ...search.Option) (chess.Score, move.Move, move.Move) {
	var o search.Options
	for _, f := range opts {
		f(&o)
	}
	m.mu.Lock()
	m.opts = o
	m.started = time.Now()
	m.mu.Unlock()
	// a real search makes and unmakes moves on the driver's board in place
	var rv board.Reverse
	if m.oddPly {
		rv = b.MakeNullMove()
	}
	m.entered <- struct{}{}
	<-o.Stop
	if m.oddPly {
		b.UndoNullMove(rv)
	}
	m.mu.Lock()
	m.stopped = time.Now()
	m.mu.Unlock()
	return 0, move.From(chess.E2) | move.To(chess.E4), 0
}

type e2eResult struct {
	soft       int64
	deadline   time.Duration // virtual time between search start (or ponderhit) and Stop closing
	timedOut   bool
	bestmove   bool
	noDeadline bool // the stop channel was still open after the whole clock had run out
}

func e2e(t *testing.T, c clock, ponder bool, oddPly bool, pings int) (res e2eResult) {
	synctest.Test(t, func(t *testing.T) {
		pr, pw := io.Pipe()
		or, ow := io.Pipe()
		m := &mock{entered: make(chan struct{}, 1), oddPly: oddPly}
		d := uci.NewDriver(uci.WithInput(pr), uci.WithOutput(ow), uci.WithError(io.Discard), uci.WithSearch(m))
		done := make(chan struct{})
		go func() { d.Run(); ow.Close(); close(done) }()
		lines := make(chan string, 64)
		go func() {
			sc := bufio.NewScanner(or)
			for sc.Scan() {
				lines <- sc.Text()
			}
			close(lines)
		}()
		send := func(s string) { fmt.Fprintf(pw, "%s\n", s) }
		if c.Black {
			send("position fen rnbqkbnr/pppppppp/8/8/4P3/8/PPPP1PPP/RNBQKBNR b KQkq - 0 1")
		} else {
			send("position startpos")
		}
		var args []string
		add := func(k string, v int64) {
			if v != 0 {
				args = append(args, k, fmt.Sprint(v))
			}
		}
		add("wtime", c.Wtime)
		add("btime", c.Btime)
		add("winc", c.Winc)
		add("binc", c.Binc)
		add("movetime", c.Mtime)
		var ref time.Time
		if ponder {
			send("setoption name Ponder value true")
			send("go ponder " + strings.Join(args, " "))
			<-m.entered
			time.Sleep(1234 * time.Millisecond) // pondering: no deadline may be armed yet
			synctest.Wait()
			m.mu.Lock()
			early := !m.stopped.IsZero()
			m.mu.Unlock()
			if early {
				res.timedOut = true // stop closed while pondering
			}
			ref = time.Now()
			send("ponderhit")
		} else {
			send("go " + strings.Join(args, " "))
			<-m.entered
			m.mu.Lock()
			ref = m.started
			m.mu.Unlock()
		}
		// a GUI may ping while the timed search runs; that must not move the deadline
		for i := 0; i < pings; i++ {
			time.Sleep(7 * time.Millisecond)
			m.mu.Lock()
			over := !m.stopped.IsZero()
			m.mu.Unlock()
			if over {
				break
			}
			send("isready")
		}
		// the blocking search only returns when Stop closes = when the armed deadline fires. Virtual
		// time costs nothing: wait for the whole remaining clock (or move time) plus a second; a
		// search that is still running then has no deadline at all.
		own, _ := c.own()
		bound := max(own, c.Mtime, 1) + 1000
		time.Sleep(time.Duration(bound) * time.Millisecond)
		synctest.Wait()
		m.mu.Lock()
		armed := !m.stopped.IsZero()
		m.mu.Unlock()
		if !armed {
			res.noDeadline = true
			send("stop")
		}
		for l := range lines {
			if strings.HasPrefix(l, "bestmove") {
				res.bestmove = true
				break
			}
		}
		m.mu.Lock()
		res.soft = m.opts.SoftTime
		res.deadline = m.stopped.Sub(ref)
		m.mu.Unlock()
		send("quit")
		pw.Close()
		<-done
		for range lines {
		}
	})
	return
}

func e2eCase(t *testing.T, r *ev.Run, c clock, ponder bool, oddPly bool, pings int) {
	res := e2e(t, c, ponder, oddPly, pings)
	r.Eval(1)
	kind := "e2e"
	if ponder {
		kind = "e2e-ponder"
	}
	if oddPly {
		kind += "-search-at-odd-ply"
	}
	if pings > 0 {
		kind += fmt.Sprintf("-%d-isready-pings", pings)
	}
	timed, _, _ := limits(c)
	if res.noDeadline && timed {
		r.Violation("C14:no-deadline-armed", witness{Kind: kind, Clock: c, Ponder: ponder},
			fmt.Sprintf("%+v ponder=%v: the search was still running after the whole remaining time (+1 s) had passed in virtual time: no hard deadline was armed", c, ponder))
		return
	}
	if res.noDeadline {
		return // untimed request (no clock for the side to move): nothing to judge
	}
	if !res.bestmove {
		r.Violation("C14:no-bestmove-after-deadline", witness{Kind: kind, Clock: c, Ponder: ponder}, "the blocking search was never stopped / no bestmove")
		return
	}
	if res.timedOut {
		r.Violation("C14:deadline-armed-while-pondering", witness{Kind: kind, Clock: c, Ponder: ponder}, "Stop closed before ponderhit")
		return
	}
	hard := res.deadline.Milliseconds()
	if res.deadline != time.Duration(hard)*time.Millisecond {
		hard++ // any fraction counts as later
	}
	if sig, d := judge(c, res.soft, hard); sig != "" {
		r.Violation("C14:"+sig+":observed-at-driver", witness{Kind: kind, Clock: c, Ponder: ponder},
			fmt.Sprintf("%+v ponder=%v: stop closed %v after the search started (SoftTime option %d): %s", c, ponder, res.deadline, res.soft, d))
		return
	}
	// wiring: the observed values must be those of the helpers for the side to move
	_, ws, wh := limits(c)
	if res.soft != ws || hard != wh {
		r.Violation("C14:driver-arms-different-deadline-than-helpers", witness{Kind: kind, Clock: c, Ponder: ponder},
			fmt.Sprintf("%+v ponder=%v: observed soft %d deadline %dms, helpers say soft %d hard %d", c, ponder, res.soft, hard, ws, wh))
	}
}

func randClock(rng *rand.Rand) clock {
	pick := func() int64 {
		switch rng.IntN(8) {
		case 0:
			return 1 + rng.Int64N(120)
		case 1:
			return 1 + rng.Int64N(4000)
		case 2:
			return []int64{29, 30, 31, 32, 59, 60, 61, 62, 119, 120, 121, 900, 1800, 3600}[rng.IntN(14)]
		case 3:
			return 1 + rng.Int64N(1_000_000_000_000)
		case 4:
			return 30 * (1 + rng.Int64N(200))
		default:
			return 1 + rng.Int64N(600_000)
		}
	}
	inc := func() int64 {
		switch rng.IntN(5) {
		case 0:
			return 0
		case 1:
			return rng.Int64N(200)
		case 2:
			return rng.Int64N(1_000_000_001)
		default:
			return rng.Int64N(30_000)
		}
	}
	c := clock{Wtime: pick(), Btime: pick(), Winc: inc(), Binc: inc(), Black: rng.IntN(2) == 0}
	if rng.IntN(6) == 0 {
		c.Mtime = pick()
		if rng.IntN(2) == 0 {
			c.Wtime, c.Btime, c.Winc, c.Binc = 0, 0, 0, 0
		}
	}
	return c
}

func TestCheck(t *testing.T) {
	r := ev.Start("C14")
	if margin <= 0 {
		r.Violation("C14:no-safety-margin", witness{Kind: "constant"}, fmt.Sprintf("uci.TimeSafetyMargin = %d: there is no safety margin to keep", margin))
	}
	if r.Replay != "" {
		var w witness
		if err := ev.ReadReplay(r.Replay, &w); err != nil {
			t.Fatal(err)
		}
		timed, s, h := limits(w.Clock)
		fmt.Printf("replay %+v: timed=%v soft=%d hard=%d\n", w.Clock, timed, s, h)
		if strings.HasPrefix(w.Kind, "e2e") {
			pings := 0
			if i := strings.Index(w.Kind, "-isready-pings"); i > 0 {
				fmt.Sscanf(w.Kind[strings.LastIndex(w.Kind[:i], "-")+1:i], "%d", &pings)
			}
			e2eCase(t, r, w.Clock, w.Ponder, strings.Contains(w.Kind, "odd-ply"), pings)
		} else {
			hookCase(r, ev.NewLocal(), w.Clock)
		}
		r.Finish()
		return
	}
	nw := ev.Workers()
	lcs := make([]*ev.Local, nw)
	for i := range lcs {
		lcs[i] = ev.NewLocal()
	}
	// (a) exhaustive grid through the hook
	incs := []int64{}
	for i := int64(0); i <= 200; i++ {
		incs = append(incs, i)
	}
	incs = append(incs, 1000, 10_000, 100_000, 1_000_000, 10_000_000, 100_000_000, 1_000_000_000)
	maxR := int64(r.N(12000, 200000))
	ev.Parallel(int(maxR), func(wk, i int) {
		lc := lcs[wk]
		rem := int64(i + 1)
		for _, inc := range incs {
			for _, black := range []bool{false, true} {
				c := clock{Black: black}
				if black {
					c.Btime, c.Binc = rem, inc
				} else {
					c.Wtime, c.Winc = rem, inc
				}
				hookCase(r, lc, c)
			}
		}
		r.Distinct(uint64(rem))
		r.Merge(lc)
	})
	r.Count("exhaustive_grid_remaining_max", maxR)
	// boundary neighbourhoods of the break points and huge clocks
	var bounds []int64
	for _, base := range []int64{30, 60, 120, 900, 1800, 3600, 30 * 1000, 120 * 1000, 1_000_000, 1_000_000_000, 1_000_000_000_000} {
		for d := int64(-3); d <= 3; d++ {
			if base+d >= 1 {
				bounds = append(bounds, base+d)
			}
		}
	}
	for k := int64(1); k <= 400; k++ {
		bounds = append(bounds, 30*k, 30*k+1, 30*k-1, 120*k, 120*k+1, 120*k-1)
	}
	ev.Parallel(len(bounds), func(wk, i int) {
		lc := lcs[wk]
		for _, inc := range incs {
			for _, black := range []bool{false, true} {
				c := clock{Black: black}
				if black {
					c.Btime, c.Binc = bounds[i], inc
				} else {
					c.Wtime, c.Winc = bounds[i], inc
				}
				hookCase(r, lc, c)
			}
		}
		lc.C["boundary_remaining_values"]++
		r.Merge(lc)
	})
	// random clocks, incl. movetime
	nr := r.N(4_000_000, 400_000_000)
	ev.Parallel(nr/1000, func(wk, i int) {
		lc := lcs[wk]
		rng := r.RNG("c14-rand", i)
		for k := 0; k < 1000; k++ {
			c := randClock(rng)
			if c.Mtime > 0 {
				lc.C["movetime_cases"]++
			}
			hookCase(r, lc, c)
		}
		if i%50 == 0 {
			c := randClock(rng)
			_, s, h := limits(c)
			r.Sample(map[string]any{"kind": "hook", "clock": c, "soft": s, "hard": h})
		}
		r.Merge(lc)
	})
	// (b) end to end in virtual time (sequential: synctest bubbles are cheap, ~1 ms each)
	ne := r.N(12000, 400000)
	rng := r.RNG("c14-e2e", 0)
	for i := 0; i < ne; i++ {
		var c clock
		switch {
		case i < 140: // the margin neighbourhood, both colours
			c = clock{Black: i%2 == 1}
			if c.Black {
				c.Btime, c.Wtime = int64(1+i/2), 5000
			} else {
				c.Wtime, c.Btime = int64(1+i/2), 5000
			}
		default:
			c = randClock(rng)
			// keep virtual deadlines printable; huge values are fine for virtual time
		}
		ponder := i%5 == 4
		oddPly := i%3 == 1
		pings := 0
		if i%4 == 2 {
			pings = 1 + rng.IntN(12)
		}
		e2eCase(t, r, c, ponder, oddPly, pings)
		if oddPly {
			r.Count("e2e_search_at_odd_ply", 1)
		}
		if pings > 0 {
			r.Count("e2e_with_isready_pings", 1)
		}
		r.Count("e2e_bubbles", 1)
		if ponder {
			r.Count("e2e_ponderhit_bubbles", 1)
		}
		if c.Black {
			r.Count("e2e_black_to_move", 1)
		}
		if c.Mtime > 0 {
			r.Count("e2e_movetime", 1)
		}
		r.Distinct(ev.HashStr(fmt.Sprintf("e2e%+v%v", c, ponder)))
		if i%300 == 0 {
			res := e2e(t, c, ponder, oddPly, pings)
			r.Sample(map[string]any{"kind": "e2e", "clock": c, "ponder": ponder, "observed_soft": res.soft, "observed_deadline_ms": res.deadline.Milliseconds()})
		}
	}
	r.Finish("hook_cases", "hook_cases_between_margin_and_twice_margin", "hook_cases_at_or_below_margin", "opponent_clock_variants", "movetime_cases",
		"e2e_bubbles", "e2e_ponderhit_bubbles", "e2e_black_to_move", "e2e_movetime", "boundary_remaining_values", "e2e_search_at_odd_ply", "e2e_with_isready_pings")
}
