package c04

import (
	"fmt"
	"io"
	"math/rand/v2"
	"strings"
	"testing"

	"github.com/paulsonkoly/chess-3/board"
	"github.com/paulsonkoly/chess-3/move"
	"github.com/paulsonkoly/chess-3/search"

	"verif/harness/conv"
	"verif/harness/eng"
	"verif/harness/ev"
	"verif/harness/gen"
	"verif/harness/ref"
)

type witness struct {
	Kind  string   `json:"kind"`
	Start string   `json:"start_fen"`
	Path  []string `json:"path"`
	Other []string `json:"other_path,omitempty"`
}

type mon struct {
	r     *ev.Run
	ms    *move.Store
	lc    *ev.Local
	start string
	path  []string
	bad   bool
}

// check is the boundary monitor run after every operation.
func (m *mon) check(b *board.Board, op string) bool {
	m.r.Eval(1)
	m.lc.C["states_checked"]++
	if h, s := b.Hash(), b.VerifCalculateHash(); h != s {
		m.r.Violation("C04:incremental-hash-drift:"+op, witness{Kind: op, Start: m.start, Path: append([]string(nil), m.path...)},
			fmt.Sprintf("after %s from %s path %v: incremental %016x, from scratch %016x, fen %s", op, m.start, m.path, uint64(h), uint64(s), b.FEN()))
		m.bad = true
		return false
	}
	if msg := b.VerifConsistency(); msg != "" {
		m.r.Violation("C04:representations-disagree:"+op, witness{Kind: op, Start: m.start, Path: append([]string(nil), m.path...)},
			fmt.Sprintf("after %s from %s path %v: %s", op, m.start, m.path, msg))
		m.bad = true
		return false
	}
	return true
}

func (m *mon) reload(b *board.Board) {
	if b.FiftyCnt > 100 {
		return
	}
	lb, err := board.FromFEN(b.FEN())
	if err != nil {
		return
	}
	m.lc.C["reload_cross_checks"]++
	if lb.Hash() != b.Hash() {
		m.r.Violation("C04:hash-differs-from-reloaded-position", witness{Kind: "reload", Start: m.start, Path: append([]string(nil), m.path...)},
			fmt.Sprintf("fen %s: carried hash %016x, FromFEN hash %016x", b.FEN(), uint64(b.Hash()), uint64(lb.Hash())))
		m.bad = true
	}
}

// walk: random sequences interleaving legal moves, illegal pseudo-legal make/undo and null moves;
// searchLike restricts null moves the way the search does (not in check, never two in a row).
func (m *mon) walk(b *board.Board, rng *rand.Rand, plies int, searchLike bool) {
	type fr struct {
		mv   move.Move
		null bool
		rv   board.Reverse
	}
	var st []fr
	prevNull := false
	for i := 0; i < plies && !m.bad; i++ {
		x := rng.IntN(10)
		switch {
		case x == 0 && len(st) > 0: // undo a few
			n := 1 + rng.IntN(min(len(st), 4))
			for k := 0; k < n && !m.bad; k++ {
				f := st[len(st)-1]
				st = st[:len(st)-1]
				m.path = m.path[:len(m.path)-1]
				if f.null {
					b.UndoNullMove(f.rv)
					m.check(b, "undo-null")
				} else {
					b.UndoMove(f.mv, f.rv)
					m.check(b, "undo-move")
				}
			}
			prevNull = false
		case x == 1 && (!searchLike || (!prevNull && !b.InCheck(b.STM))) && !b.InCheck(b.STM):
			rv := b.MakeNullMove()
			st = append(st, fr{null: true, rv: rv})
			m.path = append(m.path, "null")
			m.lc.C["null_moves"]++
			if prevNull {
				m.lc.C["consecutive_null_moves"]++
			}
			prevNull = true
			m.check(b, "make-null")
		default:
			if b.FiftyCnt >= 150 {
				return
			}
			ps := eng.Gen(b, m.ms)
			if len(ps) == 0 {
				return
			}
			me := b.STM
			mv := ps[rng.IntN(len(ps))]
			rv := b.MakeMove(mv)
			m.path = append(m.path, mv.String())
			ok := m.check(b, "make-move")
			if b.InCheck(me) || !ok {
				b.UndoMove(mv, rv)
				m.path = m.path[:len(m.path)-1]
				m.lc.C["illegal_pseudo_make_undo"]++
				m.check(b, "undo-move")
				continue
			}
			m.lc.C["legal_moves_made"]++
			st = append(st, fr{mv: mv, rv: rv})
			prevNull = false
			if rng.IntN(16) == 0 {
				m.reload(b)
			}
		}
	}
}

// transpositions: full-width tree from a root; a map position-key -> hash must stay functional.
func (m *mon) transpositions(p ref.Pos, depth int) {
	b := eng.MustBoard(&p)
	type ent struct {
		h    board.Hash
		path string
	}
	seen := map[string]ent{}
	var rec func(cur ref.Pos, d int)
	rec = func(cur ref.Pos, d int) {
		if m.bad {
			return
		}
		key := cur.Key()
		h := b.Hash()
		m.r.Eval(1)
		if e, ok := seen[key]; ok {
			m.lc.C["transpositions_seen"]++
			if e.h != h {
				m.r.Violation("C04:same-position-different-hash", witness{Kind: "transposition", Start: m.start, Path: append([]string(nil), m.path...), Other: strings.Fields(e.path)},
					fmt.Sprintf("root %s: position %s reached by %v has hash %016x but by [%s] hash %016x", m.start, key, m.path, uint64(h), e.path, uint64(e.h)))
				m.bad = true
			}
		} else {
			seen[key] = ent{h, strings.Join(m.path, " ")}
		}
		if d == 0 {
			return
		}
		for _, mv := range cur.Legal() {
			nx := cur.Make(mv)
			nx = nx.Normalised()
			rv := b.MakeMove(conv.M(mv))
			m.path = append(m.path, mv.String())
			rec(nx, d-1)
			m.path = m.path[:len(m.path)-1]
			b.UndoMove(conv.M(mv), rv)
		}
	}
	rec(p, depth)
	m.lc.C["transposition_tree_positions"] += int64(len(seen))
}

func TestCheck(t *testing.T) {
	r := ev.Start("C04")
	if err := ref.SelfTest(); err != nil {
		r.HarnessError("%v", err)
		r.Finish()
		t.Fatal(err)
	}
	if r.Replay != "" {
		replay(t, r)
		r.Finish()
		return
	}
	nw := ev.Workers()
	ws := make([]*mon, nw)
	for i := range ws {
		ws[i] = &mon{r: r, ms: move.NewStore(), lc: ev.NewLocal()}
	}
	corpus := gen.Corpus()
	walks := r.N(30000, 300000)
	ev.Parallel(walks, func(wk, i int) {
		m := ws[wk]
		rng := r.RNG("c04-walk", i)
		p := corpus[rng.IntN(len(corpus))]
		switch rng.IntN(5) {
		case 0, 1:
			p = gen.AnyPos(rng)
		case 2:
			// a start FEN carrying a RAW en-passant target (not necessarily capturable), as GUIs write it
			if q, ok := gen.RawEP(rng); ok {
				p = q
				m.lc.C["walks_from_raw_ep_fen"]++
				if n := q.Normalised(); n.EP < 0 {
					m.lc.C["walks_from_non_capturable_ep_fen"]++
				}
			}
		}
		b := eng.MustBoard(&p)
		m.start, m.path, m.bad = p.FEN(), m.path[:0], false
		m.check(b, "load")
		m.walk(b, rng, 50+rng.IntN(350), rng.IntN(2) == 0)
		r.DistinctStr(fmt.Sprint("walk", i, p.Key()))
		if i%800 == 0 {
			r.Sample(map[string]any{"kind": "walk", "start": p.FEN(), "ops": strings.Join(m.path[:min(len(m.path), 14)], " ")})
		}
		r.Merge(m.lc)
	})
	roots := r.N(1500, 15000)
	ev.Parallel(roots, func(wk, i int) {
		m := ws[wk]
		rng := r.RNG("c04-transp", i)
		var p ref.Pos
		switch rng.IntN(5) {
		case 4:
			if q, ok := gen.RawEP(rng); ok {
				p = q
			} else {
				p = gen.AnyPos(rng)
			}
		case 0:
			p = corpus[rng.IntN(len(corpus))]
		case 1:
			if q, ok := gen.PrePush(rng); ok {
				p = q
			} else {
				p = gen.AnyPos(rng)
			}
		default:
			p = gen.AnyPos(rng)
		}
		d := 3
		if n := len(p.Legal()); n <= 12 {
			d = 4
		} else if n > 45 {
			d = 2
		}
		m.start, m.path, m.bad = p.FEN(), m.path[:0], false
		m.transpositions(p, d)
		r.DistinctStr("tree" + p.Key())
		if i%80 == 0 {
			r.Sample(map[string]any{"kind": "transposition-tree", "root": p.FEN(), "depth": d})
		}
		r.Merge(m.lc)
	})
	// several boards alive at once (StartPos() x3, FromFEN of the same text, a clone), moved in
	// random interleaving: an operation on one board must not disturb any other board
	nmb := r.N(3000, 30000)
	ev.Parallel(nmb, func(wk, i int) {
		m := ws[wk]
		rng := r.RNG("c04-multi", i)
		m.start, m.path, m.bad = "startpos (several boards)", m.path[:0], false
		bs := []*board.Board{board.StartPos(), board.StartPos(), board.StartPos()}
		if fb, err := board.FromFEN("rnbqkbnr/pppppppp/8/8/8/8/PPPPPPPP/RNBQKBNR w KQkq - 0 1"); err == nil {
			bs = append(bs, fb)
		}
		bs = append(bs, bs[0].VerifClone())
		type fr struct {
			mv move.Move
			rv board.Reverse
		}
		stacks := make([][]fr, len(bs))
		snaps := make([]board.VerifSnap, len(bs))
		for k, b := range bs {
			snaps[k] = b.VerifSnapshot()
		}
		for op := 0; op < 160 && !m.bad; op++ {
			k := rng.IntN(len(bs))
			b := bs[k]
			if len(stacks[k]) > 0 && rng.IntN(4) == 0 {
				f := stacks[k][len(stacks[k])-1]
				stacks[k] = stacks[k][:len(stacks[k])-1]
				b.UndoMove(f.mv, f.rv)
			} else {
				l := eng.Legal(b, m.ms)
				if len(l) == 0 {
					continue
				}
				mv := l[rng.IntN(len(l))]
				stacks[k] = append(stacks[k], fr{mv, b.MakeMove(mv)})
			}
			m.path = append(m.path, fmt.Sprintf("board%d", k))
			snaps[k] = b.VerifSnapshot()
			for j, o := range bs {
				m.lc.C["multi_board_states_checked"]++
				if !m.check(o, fmt.Sprintf("multi-board(op-on-%d,check-%d)", k, j)) {
					break
				}
				if j != k && !o.VerifSnapshot().Equal(snaps[j]) {
					r.Violation("C04:operation-on-one-board-changes-another", witness{Kind: "multi-board", Start: "startpos", Path: append([]string(nil), m.path...)},
						fmt.Sprintf("after an operation on board %d, board %d (untouched) changed: its hash is %016x, from scratch %016x", k, j, uint64(o.Hash()), uint64(o.VerifCalculateHash())))
					m.bad = true
					break
				}
			}
		}
		r.DistinctStr(fmt.Sprint("multi", i))
		r.Merge(m.lc)
	})
	// in situ: the author's consistency check re-enabled inside the real search
	board.VerifCheckEnabled = true
	board.VerifCheckFail = r.HookFail("C04:in-situ-consistency-check-failed")
	before := board.VerifCheckCount.Load()
	ns := r.N(320, 3200)
	ev.Parallel(ns, func(wk, i int) {
		rng := r.RNG("c04-search", i)
		p := gen.AnyPos(rng)
		b := eng.MustBoard(&p)
		r.CurrentSync(wk, map[string]any{"kind": "search", "fen": p.FEN()})
		s := search.New(1 << 20)
		s.Go(b, search.WithNodes(20000+rng.IntN(40000)), search.WithOutput(io.Discard))
		r.Eval(1)
	})
	r.Count("in_situ_checks_inside_search", board.VerifCheckCount.Load()-before)
	board.VerifCheckEnabled = false
	r.Finish("states_checked", "null_moves", "consecutive_null_moves", "illegal_pseudo_make_undo", "reload_cross_checks", "transpositions_seen", "in_situ_checks_inside_search", "walks_from_non_capturable_ep_fen", "multi_board_states_checked")
}

func replay(t *testing.T, r *ev.Run) {
	var wt witness
	if err := ev.ReadReplay(r.Replay, &wt); err != nil {
		t.Fatal(err)
	}
	m := &mon{r: r, ms: move.NewStore(), lc: ev.NewLocal(), start: wt.Start}
	run := func(path []string) board.Hash {
		p := ref.MustFEN(wt.Start)
		b := eng.MustBoard(&p)
		for _, name := range path {
			if name == "null" {
				b.MakeNullMove()
			} else {
				var mv move.Move
				for _, x := range eng.Gen(b, m.ms) {
					if x.String() == name {
						mv = x
					}
				}
				if mv == 0 {
					// the path may contain undone segments; stop at the first non-generated move
					fmt.Printf("replay: %s is not generated in %s, stopping\n", name, b.FEN())
					break
				}
				b.MakeMove(mv)
			}
			m.path = append(m.path, name)
			m.check(b, "replay")
		}
		fmt.Printf("replay: path %v -> fen %s hash %016x scratch %016x\n", path, b.FEN(), uint64(b.Hash()), uint64(b.VerifCalculateHash()))
		return b.Hash()
	}
	h1 := run(wt.Path)
	if len(wt.Other) > 0 {
		m.path = nil
		if h2 := run(wt.Other); h1 != h2 {
			r.Violation("C04:same-position-different-hash", wt, fmt.Sprintf("%016x vs %016x", uint64(h1), uint64(h2)))
		}
	}
}
