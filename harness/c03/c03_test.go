package c03

import (
	"fmt"
	"math/rand/v2"
	"strings"
	"testing"

	"github.com/paulsonkoly/chess-3/board"
	"github.com/paulsonkoly/chess-3/chess"
	"github.com/paulsonkoly/chess-3/debug"
	"github.com/paulsonkoly/chess-3/move"

	"verif/harness/eng"
	"verif/harness/ev"
	"verif/harness/gen"
	"verif/harness/ref"
)

type witness struct {
	Kind  string   `json:"kind"`
	Start string   `json:"start_fen"`
	Path  []string `json:"path"` // moves made before the failing make/undo ("null" = null move)
	Move  string   `json:"move"` // the move made and undone ("null" = null move)
}

func diff(a, b board.VerifSnap) string {
	var d []string
	if a.SquaresToPiece != b.SquaresToPiece {
		d = append(d, "SquaresToPiece")
	}
	if a.Pieces != b.Pieces {
		d = append(d, "Pieces")
	}
	if a.Colors != b.Colors {
		d = append(d, "Colors")
	}
	if len(a.Hashes) != len(b.Hashes) {
		d = append(d, fmt.Sprintf("hash-history-length(%d->%d)", len(a.Hashes), len(b.Hashes)))
	} else {
		for i := range a.Hashes {
			if a.Hashes[i] != b.Hashes[i] {
				d = append(d, fmt.Sprintf("hash-history[%d of %d]", i, len(a.Hashes)))
				break
			}
		}
	}
	if a.FullMoves != b.FullMoves {
		d = append(d, fmt.Sprintf("fullmoves(%d->%d)", a.FullMoves, b.FullMoves))
	}
	if a.STM != b.STM {
		d = append(d, "side")
	}
	if a.EnPassant != b.EnPassant {
		d = append(d, fmt.Sprintf("enpassant(%v->%v)", a.EnPassant, b.EnPassant))
	}
	if a.Castles != b.Castles {
		d = append(d, fmt.Sprintf("rights(%d->%d)", a.Castles, b.Castles))
	}
	if a.FiftyCnt != b.FiftyCnt {
		d = append(d, fmt.Sprintf("halfmove(%d->%d)", a.FiftyCnt, b.FiftyCnt))
	}
	return strings.Join(d, ",")
}

func sigOf(d string) string {
	// strip the numbers so the signature names the attribute class only
	var sb strings.Builder
	for _, part := range strings.Split(d, ",") {
		if i := strings.IndexAny(part, "(["); i >= 0 {
			part = part[:i]
		}
		if sb.Len() > 0 {
			sb.WriteByte('+')
		}
		sb.WriteString(part)
	}
	return sb.String()
}

type walker struct {
	r     *ev.Run
	ms    *move.Store
	lc    *ev.Local
	start string
	path  []string
}

func (w *walker) fail(kind, mv string, before, after board.VerifSnap) {
	d := diff(before, after)
	w.r.Violation("C03:undo-does-not-restore:"+kind+":"+sigOf(d), witness{Kind: kind, Start: w.start, Path: append([]string(nil), w.path...), Move: mv},
		fmt.Sprintf("start %s path %v make+undo %s changed: %s", w.start, w.path, mv, d))
}

// tree: at each node every pseudo-legal move (legal or not) and the null move is made and undone
// with a snapshot comparison; legal moves are recursed into.
func (w *walker) tree(b *board.Board, depth int, afterNull bool) {
	moves := eng.Gen(b, w.ms)
	me := b.STM
	before := b.VerifSnapshot()
	for _, m := range moves {
		rv := b.MakeMove(m)
		legal := !b.InCheck(me)
		if legal {
			w.lc.C["legal_make_undo"]++
		} else {
			w.lc.C["illegal_pseudo_make_undo"]++
		}
		if legal && depth > 1 {
			w.path = append(w.path, m.String())
			w.tree(b, depth-1, false)
			w.path = w.path[:len(w.path)-1]
		}
		b.UndoMove(m, rv)
		w.r.Eval(1)
		if after := b.VerifSnapshot(); !after.Equal(before) {
			w.fail("move", m.String(), before, after)
			return
		}
	}
	if !afterNull && !b.InCheck(me) {
		rv := b.MakeNullMove()
		w.lc.C["null_make_undo"]++
		if depth > 1 {
			w.path = append(w.path, "null")
			w.tree(b, depth-1, true)
			w.path = w.path[:len(w.path)-1]
		}
		b.UndoNullMove(rv)
		w.r.Eval(1)
		if after := b.VerifSnapshot(); !after.Equal(before) {
			w.fail("null", "null", before, after)
		}
	}
}

type frame struct {
	snap board.VerifSnap
	m    move.Move
	null bool
	rv   board.Reverse
}

// line: a deep random line of legal moves and interleaved null moves, then unwound completely in
// reverse, comparing the stored snapshot at every level.
func (w *walker) line(b *board.Board, rng *rand.Rand, maxPlies int) {
	var st []frame
	prevNull := false
	stopAt150 := rng.IntN(2) == 0
	quiet := !stopAt150 && rng.IntN(2) == 0 // prefer reversible moves: long capture-free stretches
	for ply := 0; ply < maxPlies; ply++ {
		snap := b.VerifSnapshot()
		if !prevNull && rng.IntN(6) == 0 && !b.InCheck(b.STM) {
			rv := b.MakeNullMove()
			st = append(st, frame{snap: snap, null: true, rv: rv})
			w.path = append(w.path, "null")
			prevNull = true
			continue
		}
		prevNull = false
		legal := eng.Legal(b, w.ms)
		// make/undo symmetry does not depend on the game being over by rule: clocks run past 150
		// (half of the lines), up to the line length
		if len(legal) == 0 || (b.FiftyCnt >= 150 && stopAt150) {
			break
		}
		m := legal[rng.IntN(len(legal))]
		if quiet {
			for try := 0; try < 8; try++ {
				if b.SquaresToPiece[m.From()] != chess.Pawn && b.SquaresToPiece[m.To()] == chess.NoPiece {
					break
				}
				m = legal[rng.IntN(len(legal))]
			}
		}
		w.r.MaxCount("highest_halfmove_clock_in_a_line", int64(b.FiftyCnt))
		// also make+undo a random pseudo-legal (maybe illegal) move at this level
		ps := eng.Gen(b, w.ms)
		x := ps[rng.IntN(len(ps))]
		rvx := b.MakeMove(x)
		b.UndoMove(x, rvx)
		if after := b.VerifSnapshot(); !after.Equal(snap) {
			w.fail("move", x.String(), snap, after)
			return
		}
		rv := b.MakeMove(m)
		st = append(st, frame{snap: snap, m: m, rv: rv})
		w.path = append(w.path, m.String())
	}
	w.lc.C["deep_line_plies"] += int64(len(st))
	w.r.MaxCount("deepest_nesting", int64(len(st)))
	for i := len(st) - 1; i >= 0; i-- {
		f := st[i]
		name := "null"
		if f.null {
			b.UndoNullMove(f.rv)
		} else {
			b.UndoMove(f.m, f.rv)
			name = f.m.String()
		}
		w.path = w.path[:len(w.path)-1]
		w.r.Eval(1)
		if after := b.VerifSnapshot(); !after.Equal(f.snap) {
			kind := "unwind-move"
			if f.null {
				kind = "unwind-null"
			}
			w.fail(kind, name, f.snap, after)
			return
		}
	}
}

func TestCheck(t *testing.T) {
	r := ev.Start("C03")
	if err := ref.SelfTest(); err != nil {
		r.HarnessError("%v", err)
		r.Finish()
		t.Fatal(err)
	}
	board.VerifCheckEnabled = true
	board.VerifCheckFail = r.HookFail("C03:in-situ-consistency-check-failed")
	if r.Replay != "" {
		replay(t, r)
		r.Finish()
		return
	}
	nw := ev.Workers()
	ws := make([]*walker, nw)
	for i := range ws {
		ws[i] = &walker{r: r, ms: move.NewStore(), lc: ev.NewLocal()}
	}
	corpus := gen.Corpus()
	roots := r.N(5000, 80000)
	ev.Parallel(roots, func(wk, i int) {
		w := ws[wk]
		rng := r.RNG("c03-tree", i)
		var p ref.Pos
		if i < len(corpus) {
			p = corpus[i]
		} else {
			p = gen.AnyPos(rng)
		}
		// give the board a non-trivial history: reach the root by a few moves
		b := eng.MustBoard(&p)
		pre := rng.IntN(6)
		w.path = w.path[:0]
		w.start = p.FEN()
		for k := 0; k < pre; k++ {
			l := eng.Legal(b, w.ms)
			if len(l) == 0 {
				break
			}
			m := l[rng.IntN(len(l))]
			b.MakeMove(m)
			w.path = append(w.path, m.String())
		}
		d := 2
		if rng.IntN(4) == 0 {
			d = 3
		}
		w.tree(b, d, false)
		r.DistinctStr(p.Key())
		if i%150 == 0 {
			r.Sample(map[string]any{"kind": "exhaustive-tree", "root": p.FEN(), "prefix": strings.Join(w.path, " "), "depth": d})
		}
		r.Merge(w.lc)
	})
	lines := r.N(15000, 300000)
	ev.Parallel(lines, func(wk, i int) {
		w := ws[wk]
		rng := r.RNG("c03-line", i)
		p := corpus[rng.IntN(len(corpus))]
		if rng.IntN(2) == 0 {
			p = gen.AnyPos(rng)
		}
		b := eng.MustBoard(&p)
		w.path = w.path[:0]
		w.start = p.FEN()
		w.line(b, rng, 30+rng.IntN(570))
		r.DistinctStr("line" + p.Key() + fmt.Sprint(i))
		if i%400 == 0 {
			r.Sample(map[string]any{"kind": "deep-line", "root": p.FEN()})
		}
		r.Merge(w.lc)
	})
	// the in-situ hook also watches perft's make/undo pairs
	np := r.N(200, 3000)
	ev.Parallel(np, func(wk, i int) {
		rng := r.RNG("c03-perft", i)
		p := gen.AnyPos(rng)
		b := eng.MustBoard(&p)
		before := b.VerifSnapshot()
		debug.Perft(b, 3, false)
		r.Eval(1)
		if after := b.VerifSnapshot(); !after.Equal(before) {
			r.Violation("C03:perft-changes-board", witness{Kind: "perft", Start: p.FEN()}, diff(before, after))
		}
	})
	r.Count("in_situ_consistency_checks", board.VerifCheckCount.Load())
	r.Finish("legal_make_undo", "illegal_pseudo_make_undo", "null_make_undo", "deep_line_plies", "in_situ_consistency_checks")
}

func replay(t *testing.T, r *ev.Run) {
	var wt witness
	if err := ev.ReadReplay(r.Replay, &wt); err != nil {
		t.Fatal(err)
	}
	p := ref.MustFEN(wt.Start)
	b := eng.MustBoard(&p)
	ms := move.NewStore()
	find := func(name string) move.Move {
		for _, m := range eng.Gen(b, ms) {
			if m.String() == name {
				return m
			}
		}
		t.Fatalf("replay: %s not generated in %s", name, b.FEN())
		return 0
	}
	for _, name := range wt.Path {
		if name == "null" {
			b.MakeNullMove()
		} else {
			b.MakeMove(find(name))
		}
	}
	before := b.VerifSnapshot()
	if wt.Move == "null" {
		rv := b.MakeNullMove()
		b.UndoNullMove(rv)
	} else if wt.Move != "" {
		m := find(wt.Move)
		rv := b.MakeMove(m)
		b.UndoMove(m, rv)
	}
	after := b.VerifSnapshot()
	fmt.Printf("replay: position %s make+undo %s: diff=%q\n", b.FEN(), wt.Move, diff(before, after))
	if !after.Equal(before) {
		r.Violation("C03:undo-does-not-restore:"+wt.Kind+":"+sigOf(diff(before, after)), wt, diff(before, after))
	}
}
