package c02

import (
	"bytes"
	"fmt"
	"math/rand/v2"
	"strings"
	"testing"

	"github.com/paulsonkoly/chess-3/board"
	"github.com/paulsonkoly/chess-3/uci"

	"verif/harness/conv"
	"verif/harness/eng"
	"verif/harness/ev"
	"verif/harness/gen"
	"verif/harness/ref"
)

type witness struct {
	Kind   string   `json:"kind"`
	Start  string   `json:"start_fen"`
	Moves  []string `json:"moves"`
	Script []posCmd `json:"session,omitempty"`
}

// posCmd is one position command of a multi-command driver session.
type posCmd struct {
	Start string   `json:"start"` // "startpos" or a FEN
	Moves []string `json:"moves"`
	Pre   string   `json:"pre,omitempty"` // command sent before it (ucinewgame, isready, ...)
}

var fieldNames = []string{"placement", "side", "rights", "enpassant", "halfmove", "fullmove"}

// diffFields names the FEN fields in which got differs from want.
func diffFields(got, want string) string {
	g, w := strings.Fields(got), strings.Fields(want)
	if len(g) != 6 || len(w) != 6 {
		return "shape"
	}
	var d []string
	for i := range g {
		if g[i] != w[i] {
			d = append(d, fieldNames[i])
		}
	}
	return strings.Join(d, "+")
}

func features(lc *ev.Local, before *ref.Pos, m ref.Move, after *ref.Pos, raw *ref.Pos) {
	c := lc.C
	c["moves_compared"]++
	if before.IsCastle(m) {
		c["castling_moves"]++
	}
	if before.IsEPCapture(m) {
		c["en_passant_captures"]++
	}
	if m.Promo() != 0 {
		c["promotions"]++
	}
	if raw.EP >= 0 {
		c["double_pushes"]++
		if after.EP >= 0 {
			c["ep_target_recorded"]++
		} else {
			// was there an enemy pawn next to the pushed pawn at all?
			to := m.To()
			adj := false
			for _, df := range []int{-1, 1} {
				f := to%8 + df
				if f >= 0 && f < 8 {
					v := after.Sq[(to/8)*8+f]
					if (v == ref.P || v == -ref.P) && (v > 0) == after.White {
						adj = true
					}
				}
			}
			if adj {
				c["ep_target_suppressed_capture_illegal"]++
			}
		}
	}
	if before.Castle != after.Castle {
		c["rights_changed"]++
		v := before.Sq[m.From()]
		if v != ref.K && v != -ref.K && v != ref.R && v != -ref.R {
			c["rights_lost_by_rook_capture"]++
		}
	}
	if after.Half >= 100 {
		c["clock_ge_100"]++
	}
	if after.Half >= 128 {
		c["clock_ge_128"]++
	}
}

func TestCheck(t *testing.T) {
	r := ev.Start("C02")
	if err := ref.SelfTest(); err != nil {
		r.HarnessError("%v", err)
		r.Finish()
		t.Fatal(err)
	}
	if r.Replay != "" {
		var w witness
		if err := ev.ReadReplay(r.Replay, &w); err != nil {
			t.Fatal(err)
		}
		if w.Kind == "uci-session" {
			uciSession(r, ev.NewLocal(), w.Script)
		} else if w.Kind == "uci" {
			uciCase(r, w.Start, w.Moves, w.Start == "startpos")
		} else {
			history(r, ev.NewLocal(), w.Kind, ref.MustFEN(w.Start), w.Moves, true)
		}
		r.Finish()
		return
	}
	nw := ev.Workers()
	lcs := make([]*ev.Local, nw)
	for i := range lcs {
		lcs[i] = ev.NewLocal()
	}

	// (a) one step: every legal move of generated positions
	const chunk = 200
	type src struct {
		name string
		f    func(*rand.Rand) (ref.Pos, bool)
		n    int
	}
	for _, s := range []src{{"dense", gen.Dense, r.N(60000, 3000000)}, {"sparse", gen.Sparse, r.N(40000, 2000000)}, {"adv", gen.Adv, r.N(160000, 8000000)}, {"prepush", gen.PrePush, r.N(200000, 10000000)}} {
		ev.Parallel(s.n/chunk, func(wk, i int) {
			lc := lcs[wk]
			rng := r.RNG("c02-"+s.name, i)
			for k := 0; k < chunk; k++ {
				p, ok := s.f(rng)
				if !ok {
					continue
				}
				b, err := board.FromFEN(p.FEN())
				if err != nil {
					continue // C11's business
				}
				fen := p.FEN()
				for _, m := range p.Legal() {
					raw := p.Make(m)
					want := raw.Normalised()
					rv := b.MakeMove(conv.M(m))
					got := b.FEN()
					b.UndoMove(conv.M(m), rv)
					r.Eval(1)
					features(lc, &p, m, &want, &raw)
					if got != want.FEN() {
						d := diffFields(got, want.FEN())
						r.Violation("C02:successor-mismatch:"+d, witness{Kind: "onestep-" + s.name, Start: fen, Moves: []string{m.String()}},
							fmt.Sprintf("position %s move %s\nengine    %s\nreference %s\nfields: %s", fen, m, got, want.FEN(), d))
					}
				}
				r.DistinctStr(p.Key())
				if k == 0 && i%50 == 0 {
					r.Sample(map[string]any{"kind": "onestep-" + s.name, "fen": fen, "legal_moves": len(p.Legal())})
				}
			}
			r.Merge(lc)
		})
	}

	// (b) histories: the engine board is carried along, never reloaded
	corpus := gen.Corpus()
	games := r.N(8000, 400000)
	ev.Parallel(games, func(wk, i int) {
		lc := lcs[wk]
		rng := r.RNG("c02-hist", i)
		var start ref.Pos
		switch rng.IntN(4) {
		case 0:
			start = corpus[0]
		case 1:
			start = gen.AnyPos(rng)
		default:
			start = corpus[rng.IntN(len(corpus))]
		}
		start.Half = start.Half % 101
		var steps []gen.Step
		kind := "playout"
		switch rng.IntN(5) {
		case 0:
			kind = "shuffle"
			steps = gen.Shuffle(rng, start, 100+rng.IntN(400), 0.3+0.5*rng.Float64(), 150)
		case 1:
			kind = "quiet"
			start.Half = 0
			steps = gen.Playout(rng, start, 320, gen.BiasQuiet, 150)
		default:
			steps = gen.Playout(rng, start, 40+rng.IntN(260), gen.BiasRich, 150)
		}
		ms := make([]string, len(steps))
		for k, s := range steps {
			ms[k] = s.Move.String()
		}
		history(r, lc, kind, start, ms, false)
		if i%200 == 0 {
			r.Sample(map[string]any{"kind": kind, "start": start.FEN(), "plies": len(steps), "moves": strings.Join(ms[:min(len(ms), 12)], " ")})
		}
		r.Merge(lc)
	})

	// (c) UCI: position (startpos | fen F) moves ... ; fen
	nu := r.N(6000, 300000)
	ev.Parallel(nu, func(wk, i int) {
		rng := r.RNG("c02-uci", i)
		var start ref.Pos
		sp := rng.IntN(3) == 0
		if sp {
			start = corpus[0]
		} else {
			start = gen.AnyPos(rng)
			start.Half = start.Half % 101
		}
		bias := gen.BiasRich
		if rng.IntN(5) == 0 {
			bias = gen.BiasQuiet
		}
		steps := gen.Playout(rng, start, rng.IntN(200), bias, 150)
		ms := make([]string, len(steps))
		for k, s := range steps {
			ms[k] = s.Move.String()
		}
		s := start.FEN()
		if sp {
			s = "startpos"
		}
		uciCase(r, s, ms, sp)
		lcs[wk].C["uci_scripts"]++
		lcs[wk].C["uci_moves"] += int64(len(ms))
		r.Merge(lcs[wk])
	})
	// very long move lists in ONE `position ... moves ...` line (several KB): whole games of
	// 800-1600 plies kept alive by oscillations with occasional pawn moves and captures
	nl := r.N(48, 480)
	ev.Parallel(nl, func(wk, i int) {
		rng := r.RNG("c02-ucilong", i)
		start := corpus[0]
		sp := i%2 == 0
		if !sp {
			start = corpus[rng.IntN(len(corpus))]
			start.Half %= 50
		}
		var steps []gen.Step
		for try := 0; try < 6 && len(steps) < 820; try++ {
			steps = gen.Shuffle(rng, start, 900+rng.IntN(800), 0.25+0.3*rng.Float64(), 150)
		}
		ms := make([]string, len(steps))
		for k, s := range steps {
			ms[k] = s.Move.String()
		}
		s := start.FEN()
		if sp {
			s = "startpos"
		}
		uciCase(r, s, ms, sp)
		lcs[wk].C["uci_long_scripts"]++
		if len(ms) >= 820 {
			lcs[wk].C["uci_scripts_with_line_over_4096_bytes"]++
		}
		r.MaxCount("uci_longest_move_list_plies", int64(len(ms)))
		r.Merge(lcs[wk])
	})
	// several position commands in ONE driver: the position after each command must depend on that
	// command alone, whatever the driver saw before (same list again, extensions of an earlier list,
	// startpos and fen starts interleaved, ucinewgame in between)
	ns := r.N(1500, 60000)
	ev.Parallel(ns, func(wk, i int) {
		rng := r.RNG("c02-ucisession", i)
		uciSession(r, lcs[wk], randomSession(rng, corpus))
		r.Merge(lcs[wk])
	})
	r.Finish("uci_sessions", "uci_session_position_commands", "uci_session_list_extends_earlier_list", "uci_session_startpos_after_fen", "uci_scripts_with_line_over_4096_bytes", "moves_compared", "castling_moves", "en_passant_captures", "promotions", "ep_target_recorded", "ep_target_suppressed_capture_illegal",
		"rights_lost_by_rook_capture", "clock_ge_100", "clock_ge_128", "uci_scripts", "history_moves")
}

// history replays moves (names) from start on one engine board and compares every successor.
func history(r *ev.Run, lc *ev.Local, kind string, start ref.Pos, moves []string, verbose bool) {
	b := eng.MustBoard(&start)
	cur := start
	for k, name := range moves {
		var m ref.Move
		for _, l := range cur.Legal() {
			if l.String() == name {
				m = l
			}
		}
		if m == 0 {
			r.HarnessError("history move %s not legal in %s", name, cur.FEN())
			return
		}
		raw := cur.Make(m)
		want := raw.Normalised()
		b.MakeMove(conv.M(m))
		got := b.FEN()
		r.Eval(1)
		features(lc, &cur, m, &want, &raw)
		lc.C["history_moves"]++
		if verbose {
			fmt.Printf("%3d %-6s engine %s | reference %s\n", k+1, name, got, want.FEN())
		}
		if got != want.FEN() {
			d := diffFields(got, want.FEN())
			r.Violation("C02:successor-mismatch:"+d, witness{Kind: kind, Start: start.FEN(), Moves: moves[:k+1]},
				fmt.Sprintf("after %d plies from %s (last move %s)\nengine    %s\nreference %s\nfields: %s", k+1, start.FEN(), name, got, want.FEN(), d))
			return
		}
		cur = want
	}
	r.DistinctStr(start.Key() + strings.Join(moves, ","))
}

func uciCase(r *ev.Run, start string, moves []string, startpos bool) {
	var cur ref.Pos
	if startpos {
		cur = gen.Corpus()[0]
	} else {
		cur = ref.MustFEN(start)
	}
	for _, name := range moves {
		var m ref.Move
		for _, l := range cur.Legal() {
			if l.String() == name {
				m = l
			}
		}
		if m == 0 {
			r.HarnessError("uci move %s not legal in %s", name, cur.FEN())
			return
		}
		cur = cur.Make(m)
		cur = cur.Normalised()
	}
	var cmd strings.Builder
	if startpos {
		cmd.WriteString("position startpos")
	} else {
		cmd.WriteString("position fen " + start)
	}
	if len(moves) > 0 {
		cmd.WriteString(" moves " + strings.Join(moves, " "))
	}
	cmd.WriteString("\nfen\nquit\n")
	var out, errb bytes.Buffer
	drv := uci.NewDriver(uci.WithInput(strings.NewReader(cmd.String())), uci.WithOutput(&out), uci.WithError(&errb))
	drv.Run()
	got := strings.TrimSpace(out.String())
	r.Eval(1)
	if got != cur.FEN() {
		d := diffFields(got, cur.FEN())
		r.Violation("C02:uci-successor-mismatch:"+d, witness{Kind: "uci", Start: start, Moves: moves},
			fmt.Sprintf("%s\nengine    %s\nreference %s\nstderr %q", strings.SplitN(cmd.String(), "\n", 2)[0], got, cur.FEN(), errb.String()))
	}
}

// randomSession builds a session of 3-8 position commands whose move lists are related to each
// other the way a GUI's are: the same game resent with one or two more moves, a different game in
// between, the same list twice.
func randomSession(rng *rand.Rand, corpus []ref.Pos) []posCmd {
	type game struct {
		start string
		pos   ref.Pos
		moves []string
	}
	mk := func(sp bool) game {
		g := game{start: "startpos", pos: corpus[0]}
		if !sp {
			g.pos = corpus[rng.IntN(len(corpus))]
			g.pos.Half %= 60
			g.start = g.pos.FEN()
		}
		for _, st := range gen.Playout(rng, g.pos, 2+rng.IntN(30), gen.MoveBias(rng.IntN(3)), 150) {
			g.moves = append(g.moves, st.Move.String())
		}
		return g
	}
	games := []game{mk(true), mk(false)}
	if rng.IntN(2) == 0 {
		games = append(games, mk(rng.IntN(2) == 0))
	}
	shown := make([]int, len(games)) // how much of each game has been sent so far
	var out []posCmd
	n := 3 + rng.IntN(6)
	for k := 0; k < n; k++ {
		gi := rng.IntN(len(games))
		if k < 3 {
			gi = []int{0, 1, 0}[k] // startpos list, a fen command, the startpos list extended
		}
		g := &games[gi]
		var upto int
		switch x := rng.IntN(10); {
		case x < 6: // the game goes on by 0-3 plies
			upto = min(len(g.moves), shown[gi]+rng.IntN(4))
		case x < 8: // take-back
			upto = rng.IntN(shown[gi] + 1)
		default:
			upto = rng.IntN(len(g.moves) + 1)
		}
		if k == 0 && upto == 0 {
			upto = min(len(g.moves), 1+rng.IntN(6))
		}
		shown[gi] = upto
		c := posCmd{Start: g.start, Moves: append([]string(nil), g.moves[:upto]...)}
		switch rng.IntN(8) {
		case 0:
			c.Pre = "ucinewgame"
		case 1:
			c.Pre = "isready"
		}
		out = append(out, c)
	}
	return out
}

// uciSession feeds the whole session to one driver, with `fen` after every position command, and
// compares each reported position with the reference model's for that command alone.
func uciSession(r *ev.Run, lc *ev.Local, script []posCmd) {
	var cmd strings.Builder
	var want []string
	seen := map[string]bool{}
	fenBefore := false
	for _, c := range script {
		cur := gen.Corpus()[0]
		if c.Start != "startpos" {
			cur = ref.MustFEN(c.Start)
		}
		for _, name := range c.Moves {
			var m ref.Move
			for _, l := range cur.Legal() {
				if l.String() == name {
					m = l
				}
			}
			if m == 0 {
				r.HarnessError("uci session move %s not legal in %s", name, cur.FEN())
				return
			}
			cur = cur.Make(m).Normalised()
		}
		want = append(want, cur.FEN())
		if c.Pre != "" {
			cmd.WriteString(c.Pre + "\n")
		}
		line := "position startpos"
		if c.Start != "startpos" {
			line = "position fen " + c.Start
			fenBefore = true
		} else if fenBefore {
			lc.C["uci_session_startpos_after_fen"]++
		}
		if len(c.Moves) > 0 {
			line += " moves " + strings.Join(c.Moves, " ")
		}
		for prev := range seen {
			if len(c.Moves) > 0 && strings.HasPrefix(c.Start+" "+strings.Join(c.Moves, " ")+" ", prev) {
				lc.C["uci_session_list_extends_earlier_list"]++
				break
			}
		}
		if len(c.Moves) > 0 {
			seen[c.Start+" "+strings.Join(c.Moves, " ")+" "] = true
		}
		cmd.WriteString(line + "\nfen\n")
		lc.C["uci_session_position_commands"]++
	}
	cmd.WriteString("quit\n")
	var out, errb bytes.Buffer
	drv := uci.NewDriver(uci.WithInput(strings.NewReader(cmd.String())), uci.WithOutput(&out), uci.WithError(&errb))
	drv.Run()
	var got []string
	for _, l := range strings.Split(strings.TrimSpace(out.String()), "\n") {
		if l != "readyok" {
			got = append(got, l)
		}
	}
	r.Eval(len(want))
	lc.C["uci_sessions"]++
	for k := range want {
		g := "<no output>"
		if k < len(got) {
			g = got[k]
		}
		if g != want[k] {
			d := diffFields(g, want[k])
			r.Violation("C02:uci-session-successor-mismatch:"+d, witness{Kind: "uci-session", Script: script},
				fmt.Sprintf("position command %d of %d in one driver session reports a position that is not the one its own start and move list prescribe\ncommand   position %s moves %s\nengine    %s\nreference %s\nsession:\n%s", k+1, len(script), script[k].Start, strings.Join(script[k].Moves, " "), g, want[k], cmd.String()))
			return
		}
	}
}
