package gen

import "verif/harness/ref"

// Small enumerates every placement of the given non-king pieces (signed ref codes) together
// with both kings and both sides to move, calls visit for each valid position (normalised
// e.p.; when withEP is set every valid raw e.p. target is tried as well) and returns the
// number of valid positions. stride/offset select every stride-th raw placement.
func Small(pieces []int8, withEP bool, stride, offset int, visit func(p ref.Pos)) int {
	n := len(pieces) + 2
	all := append([]int8{ref.K, -ref.K}, pieces...)
	sq := make([]int, n)
	count := 0
	raw := 0
	var rec func(i int, p *ref.Pos)
	rec = func(i int, p *ref.Pos) {
		if i == n {
			raw++
			if stride > 1 && raw%stride != offset {
				return
			}
			for _, white := range []bool{true, false} {
				q := *p
				q.White = white
				q.EP = -1
				q.Full = 1
				if q.Valid() {
					count++
					visit(q)
				}
				if withEP {
					for f := 0; f < 8; f++ {
						e := q
						if white {
							e.EP = 40 + f
						} else {
							e.EP = 16 + f
						}
						if e.Valid() {
							e = e.Normalised()
							if e.EP >= 0 {
								count++
								visit(e)
							}
						}
					}
				}
			}
			return
		}
		v := all[i]
		start := 0
		// identical pieces: enforce ascending squares to avoid duplicates
		if i > 0 && all[i-1] == v {
			start = sq[i-1] + 1
		}
		for s := start; s < 64; s++ {
			if p.Sq[s] != 0 {
				continue
			}
			if (v == ref.P || v == -ref.P) && (s/8 == 0 || s/8 == 7) {
				continue
			}
			if i == 1 { // kings not adjacent
				df, dr := s%8-sq[0]%8, s/8-sq[0]/8
				if df >= -1 && df <= 1 && dr >= -1 && dr <= 1 {
					continue
				}
			}
			p.Sq[s] = v
			sq[i] = s
			rec(i+1, p)
			p.Sq[s] = 0
		}
	}
	var p ref.Pos
	p.EP = -1
	rec(0, &p)
	return count
}
