// Package gen holds the seeded position and history generators. Every position handed out
// has passed ref.Valid() and carries a normalised en-passant target unless stated otherwise.
package gen

import (
	_ "embed"
	"math/rand/v2"
	"strings"
	"sync"

	"verif/harness/ref"
)

//go:embed corpus.txt
var corpusTxt string

var (
	corpusOnce sync.Once
	corpus     []ref.Pos
)

// Corpus returns the valid seed positions (start position, bench set, perft-suite roots, specials).
func Corpus() []ref.Pos {
	corpusOnce.Do(func() {
		for _, l := range strings.Split(corpusTxt, "\n") {
			l = strings.TrimSpace(l)
			if l == "" {
				continue
			}
			p, err := ref.ParseFEN(l)
			if err != nil || !p.Valid() {
				continue
			}
			corpus = append(corpus, p.Normalised())
		}
	})
	return corpus
}

func place(rng *rand.Rand, p *ref.Pos, v int8) bool {
	for try := 0; try < 50; try++ {
		s := rng.IntN(64)
		if p.Sq[s] != 0 {
			continue
		}
		if (v == ref.P || v == -ref.P) && (s/8 == 0 || s/8 == 7) {
			continue
		}
		p.Sq[s] = v
		return true
	}
	return false
}

func addRights(rng *rand.Rand, p *ref.Pos, prob float64) {
	if p.Sq[4] == ref.K && p.Sq[7] == ref.R && rng.Float64() < prob {
		p.Castle |= ref.WK
	}
	if p.Sq[4] == ref.K && p.Sq[0] == ref.R && rng.Float64() < prob {
		p.Castle |= ref.WQ
	}
	if p.Sq[60] == -ref.K && p.Sq[63] == -ref.R && rng.Float64() < prob {
		p.Castle |= ref.BK
	}
	if p.Sq[60] == -ref.K && p.Sq[56] == -ref.R && rng.Float64() < prob {
		p.Castle |= ref.BQ
	}
}

func addRawEP(rng *rand.Rand, p *ref.Pos, prob float64) {
	var cands []int
	for f := 0; f < 8; f++ {
		if p.White {
			if p.Sq[32+f] == -ref.P && p.Sq[40+f] == 0 && p.Sq[48+f] == 0 {
				cands = append(cands, 40+f)
			}
		} else {
			if p.Sq[24+f] == ref.P && p.Sq[16+f] == 0 && p.Sq[8+f] == 0 {
				cands = append(cands, 16+f)
			}
		}
	}
	if len(cands) > 0 && rng.Float64() < prob {
		p.EP = cands[rng.IntN(len(cands))]
	}
}

// material places non-king material for both sides. density in [0,1] scales the counts.
func material(rng *rand.Rand, p *ref.Pos, density float64, promoProb int) {
	for c := 0; c < 2; c++ {
		sg := int8(1)
		if c == 1 {
			sg = -1
		}
		budget := 8
		np := int(float64(rng.IntN(9)) * density)
		budget -= np
		for i := 0; i < np; i++ {
			place(rng, p, sg*ref.P)
		}
		for _, pc := range []int8{ref.N, ref.B, ref.R, ref.Q} {
			base := 2
			if pc == ref.Q {
				base = 1
			}
			n := rng.IntN(base + 1)
			if density < 1 && rng.Float64() > density {
				n = 0
			}
			if promoProb > 0 && rng.IntN(promoProb) == 0 && budget > 0 {
				extra := 1 + rng.IntN(budget)
				n = base + extra
				budget -= extra
			}
			for i := 0; i < n; i++ {
				if pc == ref.R && rng.IntN(3) == 0 {
					corner := []int{0, 7}[rng.IntN(2)]
					if c == 1 {
						corner += 56
					}
					if p.Sq[corner] == 0 {
						p.Sq[corner] = sg * pc
						continue
					}
				}
				place(rng, p, sg*pc)
			}
		}
	}
}

// Dense returns a random placement rich in material (incl. promoted material), pins, batteries
// and multiple checks. ok=false when the draw was not a valid position.
func Dense(rng *rand.Rand) (ref.Pos, bool) {
	return randomPos(rng, 1.0, 6)
}

// Sparse returns a random placement with little material (endgame-like).
func Sparse(rng *rand.Rand) (ref.Pos, bool) {
	return randomPos(rng, 0.15+0.5*rng.Float64(), 12)
}

func randomPos(rng *rand.Rand, density float64, promoProb int) (ref.Pos, bool) {
	var p ref.Pos
	p.EP = -1
	p.Full = 1 + rng.IntN(120)
	p.Half = rng.IntN(101)
	if rng.IntN(2) == 0 {
		p.Half = rng.IntN(8)
	}
	p.White = rng.IntN(2) == 0
	if rng.IntN(3) == 0 {
		p.Sq[4] = ref.K
	} else {
		place(rng, &p, ref.K)
	}
	if rng.IntN(3) == 0 && p.Sq[60] == 0 {
		p.Sq[60] = -ref.K
	} else {
		place(rng, &p, -ref.K)
	}
	material(rng, &p, density, promoProb)
	addRights(rng, &p, 0.5)
	addRawEP(rng, &p, 0.6)
	if !p.Valid() {
		return p, false
	}
	return p.Normalised(), true
}

// MaybeMirror colour-mirrors p with probability 1/2.
func MaybeMirror(rng *rand.Rand, p ref.Pos) ref.Pos {
	if rng.IntN(2) == 0 {
		return p.Mirror()
	}
	return p
}

func onb(f, r int) bool { return f >= 0 && f < 8 && r >= 0 && r < 8 }

var dirs8 = [8][2]int{{1, 0}, {0, 1}, {-1, 0}, {0, -1}, {1, 1}, {-1, 1}, {-1, -1}, {1, -1}}
var knightD = [8][2]int{{1, 2}, {2, 1}, {2, -1}, {1, -2}, {-1, -2}, {-2, -1}, {-2, 1}, {-1, 2}}

// Adv builds adversarial positions for the hand-written check-evasion, pin and en-passant case
// analyses (white to move before the optional mirror). ok=false when the construction was invalid.
func Adv(rng *rand.Rand) (ref.Pos, bool) {
	var p ref.Pos
	p.EP = -1
	p.White = true
	p.Full = 1 + rng.IntN(60)
	p.Half = rng.IntN(20)
	theme := rng.IntN(12)
	switch {
	case theme >= 10:
		advDoublePush(rng, &p)
	case theme < 4:
		advCheck(rng, &p)
	case theme < 7:
		advEP(rng, &p)
	case theme < 9:
		advStale(rng, &p)
	default:
		advCastle(rng, &p)
	}
	if p.KingSq(true) < 0 {
		place(rng, &p, ref.K)
	}
	if p.KingSq(false) < 0 {
		place(rng, &p, -ref.K)
	}
	// filler
	nf := rng.IntN(7)
	for i := 0; i < nf; i++ {
		v := int8(1 + rng.IntN(5))
		if rng.IntN(2) == 0 {
			v = -v
		}
		place(rng, &p, v)
	}
	addRights(rng, &p, 0.5)
	if p.EP < 0 {
		addRawEP(rng, &p, 0.5)
	}
	if !p.Valid() {
		return p, false
	}
	p = p.Normalised()
	return MaybeMirror(rng, p), true
}

func put(p *ref.Pos, f, r int, v int8) bool {
	if !onb(f, r) || p.Sq[r*8+f] != 0 {
		return false
	}
	if (v == ref.P || v == -ref.P) && (r == 0 || r == 7) {
		return false
	}
	p.Sq[r*8+f] = v
	return true
}

// advCheck: white king in check by a slider at distance d / knight / pawn, plus defenders that
// capture or interpose, some of them pinned.
func advCheck(rng *rand.Rand, p *ref.Pos) {
	kf, kr := rng.IntN(8), rng.IntN(8)
	put(p, kf, kr, ref.K)
	kind := rng.IntN(10)
	var cf, cr int // checker square
	var between [][2]int
	switch {
	case kind < 6: // slider
		d := dirs8[rng.IntN(8)]
		dist := 2 + rng.IntN(6)
		cf, cr = kf+d[0]*dist, kr+d[1]*dist
		for !onb(cf, cr) && dist > 1 {
			dist--
			cf, cr = kf+d[0]*dist, kr+d[1]*dist
		}
		diag := d[0] != 0 && d[1] != 0
		v := int8(-ref.Q)
		if rng.IntN(2) == 0 {
			if diag {
				v = -ref.B
			} else {
				v = -ref.R
			}
		}
		put(p, cf, cr, v)
		for i := 1; i < dist; i++ {
			between = append(between, [2]int{kf + d[0]*i, kr + d[1]*i})
		}
	case kind < 8: // knight
		d := knightD[rng.IntN(8)]
		cf, cr = kf+d[0], kr+d[1]
		put(p, cf, cr, -ref.N)
	default: // pawn (black pawn attacks downwards)
		cf, cr = kf+[]int{-1, 1}[rng.IntN(2)], kr+1
		put(p, cf, cr, -ref.P)
	}
	if !onb(cf, cr) {
		return
	}
	// second checker sometimes (double check)
	if rng.IntN(6) == 0 {
		d := knightD[rng.IntN(8)]
		put(p, kf+d[0], kr+d[1], -ref.N)
	}
	// capturers of the checker
	nc := rng.IntN(3)
	for i := 0; i < nc; i++ {
		switch rng.IntN(4) {
		case 0:
			d := knightD[rng.IntN(8)]
			put(p, cf+d[0], cr+d[1], ref.N)
		case 1:
			put(p, cf+[]int{-1, 1}[rng.IntN(2)], cr-1, ref.P)
		case 2:
			d := dirs8[rng.IntN(8)]
			dist := 1 + rng.IntN(4)
			v := int8(ref.Q)
			if d[0] != 0 && d[1] != 0 {
				if rng.IntN(2) == 0 {
					v = ref.B
				}
			} else if rng.IntN(2) == 0 {
				v = ref.R
			}
			put(p, cf+d[0]*dist, cr+d[1]*dist, v)
		case 3:
			// e.p. capture of a checking pawn that has just double-pushed
			if p.Sq[cr*8+cf] == -ref.P && cr == 4 && onb(cf, 5) && onb(cf, 6) && p.Sq[5*8+cf] == 0 && p.Sq[6*8+cf] == 0 {
				p.EP = 5*8 + cf
				put(p, cf+[]int{-1, 1}[rng.IntN(2)], 4, ref.P)
			}
		}
	}
	// interposers
	for _, b := range between {
		if rng.IntN(2) == 0 {
			continue
		}
		switch rng.IntN(5) {
		case 0:
			d := knightD[rng.IntN(8)]
			put(p, b[0]+d[0], b[1]+d[1], ref.N)
		case 1: // single push
			put(p, b[0], b[1]-1, ref.P)
		case 2: // double push from the second rank
			if b[1] == 3 {
				put(p, b[0], 1, ref.P)
				switch rng.IntN(4) {
				case 0:
					put(p, b[0], 2, int8(-1-rng.IntN(5))) // double push blocked by an enemy piece
				case 1:
					// blocked by an own pawn on the third rank which is itself pinned along the rank
					// or a diagonal, so that it cannot step forward to interpose either
					if put(p, b[0], 2, ref.P) {
						d := dirs8[[]int{0, 2, 4, 5, 6, 7}[rng.IntN(6)]]
						for k := 1; k < 8; k++ {
							f, r := b[0]+d[0]*k, 2+d[1]*k
							if !onb(f, r) {
								break
							}
							if p.Sq[r*8+f] != 0 {
								if p.Sq[r*8+f] == ref.K && k > 0 {
									// king found on one side: put the pinner on the other side
									for j := 1; j < 8; j++ {
										ff, rr := b[0]-d[0]*j, 2-d[1]*j
										if !onb(ff, rr) || p.Sq[rr*8+ff] != 0 {
											break
										}
										if rng.IntN(2) == 0 || j == 3 {
											v := int8(-ref.Q)
											if d[0] != 0 && d[1] != 0 {
												if rng.IntN(2) == 0 {
													v = -ref.B
												}
											} else if rng.IntN(2) == 0 {
												v = -ref.R
											}
											put(p, ff, rr, v)
											break
										}
									}
								}
								break
							}
						}
					}
				}
			}
		default:
			d := dirs8[rng.IntN(8)]
			dist := 1 + rng.IntN(4)
			v := int8(ref.Q)
			if d[0] != 0 && d[1] != 0 {
				if rng.IntN(2) == 0 {
					v = ref.B
				}
			} else if rng.IntN(2) == 0 {
				v = ref.R
			}
			put(p, b[0]+d[0]*dist, b[1]+d[1]*dist, v)
		}
	}
	addPins(rng, p, kf, kr, rng.IntN(3))
	// take away flight squares sometimes
	if rng.IntN(2) == 0 {
		for i := 0; i < 3; i++ {
			d := dirs8[rng.IntN(8)]
			if rng.IntN(2) == 0 {
				put(p, kf+d[0], kr+d[1], int8(1+rng.IntN(5)))
			}
		}
		place(rng, p, -ref.Q)
	}
}

// advDoublePush: a slider check whose line crosses the fourth rank on a file with a white pawn
// at home; the third-rank square of that file is empty / an enemy piece / an own piece / an own
// pawn (pinned along the rank or not); the king's other neighbours are mostly blocked, so that
// "interpose by double push" decides between mate and no mate.
func advDoublePush(rng *rand.Rand, p *ref.Pos) {
	f := rng.IntN(8)
	d := dirs8[rng.IntN(8)]
	k1, k2 := 1+rng.IntN(2), 1+rng.IntN(3)
	kf, kr := f-d[0]*k1, 3-d[1]*k1
	cf, cr := f+d[0]*k2, 3+d[1]*k2
	if !onb(kf, kr) || !onb(cf, cr) || (kf == f && kr < 3) {
		return
	}
	put(p, kf, kr, ref.K)
	v := int8(-ref.Q)
	if rng.IntN(2) == 0 {
		if d[0] != 0 && d[1] != 0 {
			v = -ref.B
		} else {
			v = -ref.R
		}
	}
	put(p, cf, cr, v)
	put(p, f, 1, ref.P)
	switch rng.IntN(5) {
	case 0:
	case 1:
		put(p, f, 2, int8(-1-rng.IntN(5)))
	case 2:
		put(p, f, 2, int8(2+rng.IntN(4)))
	default:
		put(p, f, 2, ref.P)
		// pin it along the third rank when the king stands there
		if kr == 2 {
			side := 1
			if kf > f {
				side = -1
			}
			for k := 1; k < 8; k++ {
				ff := f + side*k
				if !onb(ff, 2) || p.Sq[2*8+ff] != 0 {
					break
				}
				if rng.IntN(2) == 0 || !onb(ff+side, 2) {
					pv := int8(-ref.R)
					if rng.IntN(3) == 0 {
						pv = -ref.Q
					}
					put(p, ff, 2, pv)
					break
				}
			}
		}
	}
	// block the king's neighbourhood with own men (not on the check line)
	for _, n := range dirs8 {
		nf, nr := kf+n[0], kr+n[1]
		if !onb(nf, nr) || p.Sq[nr*8+nf] != 0 || (n == d) {
			continue
		}
		if rng.IntN(10) < 7 {
			w := int8(ref.P)
			if nr == 0 || nr == 7 || rng.IntN(3) == 0 {
				w = int8(2 + rng.IntN(4))
			}
			put(p, nf, nr, w)
		}
	}
	if rng.IntN(2) == 0 {
		place(rng, p, -ref.Q)
	}
}

// addPins puts enemy sliders behind white pieces on lines through the white king.
func addPins(rng *rand.Rand, p *ref.Pos, kf, kr, n int) {
	for i := 0; i < n; i++ {
		d := dirs8[rng.IntN(8)]
		seen := 0
		for f, r := kf+d[0], kr+d[1]; onb(f, r); f, r = f+d[0], r+d[1] {
			v := p.Sq[r*8+f]
			if v != 0 {
				seen++
				if v < 0 {
					break
				}
				continue
			}
			if seen == 0 && rng.IntN(3) == 0 {
				if put(p, f, r, int8(1+rng.IntN(5))) {
					seen++
				}
				continue
			}
			if seen == 1 && rng.IntN(2) == 0 {
				pv := int8(-ref.Q)
				if rng.IntN(2) == 0 {
					if d[0] != 0 && d[1] != 0 {
						pv = -ref.B
					} else {
						pv = -ref.R
					}
				}
				put(p, f, r, pv)
				break
			}
		}
	}
}

// advEP: black has just double-pushed next to white pawn(s); the white king and black sliders
// are arranged on the lines that make the capture illegal or not.
func advEP(rng *rand.Rand, p *ref.Pos) {
	f := rng.IntN(8)
	put(p, f, 4, -ref.P) // pushed pawn on rank 5; target rank 6, origin rank 7
	p.EP = 5*8 + f
	side := []int{-1, 1}
	rng.Shuffle(2, func(i, j int) { side[i], side[j] = side[j], side[i] })
	put(p, f+side[0], 4, ref.P)
	if rng.IntN(3) == 0 {
		put(p, f+side[1], 4, ref.P)
	}
	switch rng.IntN(7) {
	case 0: // king on the fifth rank, enemy rook/queen on the other side
		kf := rng.IntN(8)
		if put(p, kf, 4, ref.K) {
			v := int8(-ref.R)
			if rng.IntN(2) == 0 {
				v = -ref.Q
			}
			for try := 0; try < 8; try++ {
				rf := rng.IntN(8)
				if (rf < f) != (kf < f) && put(p, rf, 4, v) {
					break
				}
			}
		}
	case 1: // king on a diagonal through the capturing pawn, bishop behind
		cf := f + side[0]
		d := dirs8[4+rng.IntN(4)]
		k := 1 + rng.IntN(3)
		if put(p, cf+d[0]*k, 4+d[1]*k, ref.K) {
			k2 := 1 + rng.IntN(3)
			v := int8(-ref.B)
			if rng.IntN(2) == 0 {
				v = -ref.Q
			}
			put(p, cf-d[0]*k2, 4-d[1]*k2, v)
		}
	case 2: // king attacked by the pushed pawn (e.p. capture resolves the check)
		put(p, f+[]int{-1, 1}[rng.IntN(2)], 3, ref.K)
	case 3: // discovered check through the origin square (rank 7)
		d := dirs8[rng.IntN(8)]
		k := 1 + rng.IntN(4)
		if put(p, f+d[0]*k, 6+d[1]*k, ref.K) {
			k2 := 1 + rng.IntN(2)
			diag := d[0] != 0 && d[1] != 0
			v := int8(-ref.Q)
			if rng.IntN(2) == 0 {
				if diag {
					v = -ref.B
				} else {
					v = -ref.R
				}
			}
			put(p, f-d[0]*k2, 6-d[1]*k2, v)
		}
	case 4: // king in check by some other piece
		place(rng, p, ref.K)
		ks := p.KingSq(true)
		if ks >= 0 {
			d := knightD[rng.IntN(8)]
			put(p, ks%8+d[0], ks/8+d[1], -ref.N)
		}
	case 5: // line through the captured pawn's square (file or diagonal): capture removes a blocker
		d := dirs8[rng.IntN(8)]
		k := 1 + rng.IntN(3)
		if put(p, f+d[0]*k, 4+d[1]*k, ref.K) {
			k2 := 1 + rng.IntN(3)
			diag := d[0] != 0 && d[1] != 0
			v := int8(-ref.Q)
			if rng.IntN(2) == 0 {
				if diag {
					v = -ref.B
				} else {
					v = -ref.R
				}
			}
			put(p, f-d[0]*k2, 4-d[1]*k2, v)
		}
	default:
	}
}

// PrePush builds positions in which black (before the optional mirror) can double-push a pawn
// next to a white pawn while kings and sliders stand on the lines that decide whether the
// en-passant capture will be legal: the positions one ply before advEP's.
func PrePush(rng *rand.Rand) (ref.Pos, bool) {
	var p ref.Pos
	p.EP = -1
	p.White = true
	p.Full = 1 + rng.IntN(60)
	p.Half = rng.IntN(20)
	advEP(rng, &p)
	f := p.EP % 8
	p.EP = -1
	// take the push back
	if p.Sq[4*8+f] != -ref.P || p.Sq[5*8+f] != 0 || p.Sq[6*8+f] != 0 {
		return p, false
	}
	p.Sq[4*8+f] = 0
	p.Sq[6*8+f] = -ref.P
	p.White = false
	if p.KingSq(true) < 0 {
		place(rng, &p, ref.K)
	}
	if p.KingSq(false) < 0 {
		place(rng, &p, -ref.K)
	}
	nf := rng.IntN(5)
	for i := 0; i < nf; i++ {
		v := int8(1 + rng.IntN(5))
		if rng.IntN(2) == 0 {
			v = -v
		}
		place(rng, &p, v)
	}
	if p.Sq[5*8+f] != 0 || p.Sq[4*8+f] != 0 {
		return p, false
	}
	addRights(rng, &p, 0.3)
	if !p.Valid() {
		return p, false
	}
	return MaybeMirror(rng, p.Normalised()), true
}

// RawEP returns a valid position that carries a RAW en-passant target (the square behind a pawn
// that has just double-pushed, whether or not a capture is legal or even possible), the way
// many GUIs write FEN. It is NOT normalised.
func RawEP(rng *rand.Rand) (ref.Pos, bool) {
	var p ref.Pos
	ok := false
	if rng.IntN(2) == 0 {
		p, ok = PrePush(rng)
	}
	if !ok {
		c := Corpus()
		st := Playout(rng, c[rng.IntN(len(c))], rng.IntN(30), BiasRich, 90)
		p = c[0]
		if len(st) > 0 {
			p = st[len(st)-1].Pos
		}
	}
	var pushes []ref.Move
	for _, m := range p.Legal() {
		v := p.Sq[m.From()]
		if (v == ref.P || v == -ref.P) && (m.To()-m.From() == 16 || m.From()-m.To() == 16) {
			pushes = append(pushes, m)
		}
	}
	if len(pushes) == 0 {
		return p, false
	}
	q := p.Make(pushes[rng.IntN(len(pushes))])
	return q, q.Valid() && q.EP >= 0
}

// advStale: white king with few or no flight squares, pinned and blocked pieces, not in check.
func advStale(rng *rand.Rand, p *ref.Pos) {
	corners := [][2]int{{0, 0}, {7, 0}, {0, 7}, {7, 7}, {rng.IntN(8), 0}, {0, rng.IntN(8)}, {rng.IntN(8), rng.IntN(8)}}
	c := corners[rng.IntN(len(corners))]
	kf, kr := c[0], c[1]
	put(p, kf, kr, ref.K)
	// enemy king / queen / rooks controlling the neighbourhood
	switch rng.IntN(4) {
	case 0:
		d := dirs8[rng.IntN(8)]
		put(p, kf+2*d[0], kr+2*d[1], -ref.K)
		dq := knightD[rng.IntN(8)]
		put(p, kf+dq[0], kr+dq[1], -ref.Q)
	case 1:
		dq := knightD[rng.IntN(8)]
		put(p, kf+dq[0], kr+dq[1], -ref.Q)
	case 2:
		put(p, (kf+1)%8, rng.IntN(8), -ref.R)
		put(p, rng.IntN(8), (kr+1)%8, -ref.R)
	default:
		for i := 0; i < 3; i++ {
			d := dirs8[rng.IntN(8)]
			put(p, kf+d[0], kr+d[1], int8(1+rng.IntN(5)))
		}
	}
	// blocked pawns
	nb := rng.IntN(4)
	for i := 0; i < nb; i++ {
		f, r := rng.IntN(8), 1+rng.IntN(5)
		if put(p, f, r, ref.P) {
			put(p, f, r+1, int8(-1-rng.IntN(5)))
		}
	}
	addPins(rng, p, kf, kr, 1+rng.IntN(3))
	if rng.IntN(3) == 0 {
		// an e.p. possibility as the only move
		f := rng.IntN(8)
		if put(p, f, 4, -ref.P) && p.Sq[5*8+f] == 0 && p.Sq[6*8+f] == 0 {
			p.EP = 5*8 + f
			put(p, f+[]int{-1, 1}[rng.IntN(2)], 4, ref.P)
		}
	}
}

// advCastle: kings and rooks at home with attackers aimed at the castling paths.
func advCastle(rng *rand.Rand, p *ref.Pos) {
	put(p, 4, 0, ref.K)
	if rng.IntN(4) != 0 {
		put(p, 7, 0, ref.R)
	}
	if rng.IntN(4) != 0 {
		put(p, 0, 0, ref.R)
	}
	if rng.IntN(2) == 0 {
		put(p, 4, 7, -ref.K)
		put(p, 7, 7, -ref.R)
		put(p, 0, 7, -ref.R)
	}
	na := rng.IntN(3)
	for i := 0; i < na; i++ {
		f := 1 + rng.IntN(6)
		switch rng.IntN(4) {
		case 0:
			put(p, f, 2+rng.IntN(5), -ref.R)
		case 1:
			d := 1 + rng.IntN(5)
			put(p, f+[]int{-d, d}[rng.IntN(2)], d, -ref.B)
		case 2:
			dn := knightD[rng.IntN(8)]
			put(p, f+dn[0], dn[1], -ref.N)
		default:
			put(p, f+[]int{-1, 1}[rng.IntN(2)], 1, -ref.P)
		}
	}
	if rng.IntN(3) == 0 {
		put(p, 1+rng.IntN(3), 0, int8(ref.N))
	}
	p.Castle = 0
	addRights(rng, p, 0.9)
}

// Castle builds positions with kings and rooks at home, assorted pieces on the back ranks and
// attackers aimed at the castling paths (either side to move).
func Castle(rng *rand.Rand) (ref.Pos, bool) {
	var p ref.Pos
	p.EP = -1
	p.White = true
	p.Full = 1 + rng.IntN(60)
	p.Half = rng.IntN(20)
	advCastle(rng, &p)
	if p.KingSq(false) < 0 {
		if rng.IntN(2) == 0 {
			put(&p, 4, 7, -ref.K)
			put(&p, 7, 7, -ref.R)
			put(&p, 0, 7, -ref.R)
		} else {
			place(rng, &p, -ref.K)
		}
	}
	// back-rank clutter next to the rooks (b/c/d/f/g files)
	for _, rk := range []int{0, 7} {
		for _, f := range []int{1, 2, 3, 5, 6} {
			if rng.IntN(5) == 0 {
				v := int8(2 + rng.IntN(4))
				if rng.IntN(2) == 0 {
					v = -v
				}
				put(&p, f, rk, v)
			}
		}
	}
	nf := rng.IntN(6)
	for i := 0; i < nf; i++ {
		v := int8(1 + rng.IntN(5))
		if rng.IntN(2) == 0 {
			v = -v
		}
		place(rng, &p, v)
	}
	p.Castle = 0
	addRights(rng, &p, 0.9)
	p.White = rng.IntN(2) == 0
	if !p.Valid() {
		return p, false
	}
	return p.Normalised(), true
}

// MoveBias selects how PickMove weighs moves.
type MoveBias int

const (
	BiasRich   MoveBias = iota // captures, promotions, castling, double pushes, e.p. up-weighted
	BiasQuiet                  // avoid captures and pawn moves (long reversible runs)
	BiasRandom                 // uniform
)

// PickMove chooses one of the legal moves with the given bias.
func PickMove(rng *rand.Rand, p *ref.Pos, legal []ref.Move, bias MoveBias) ref.Move {
	if len(legal) == 1 || bias == BiasRandom {
		return legal[rng.IntN(len(legal))]
	}
	w := make([]int, len(legal))
	tot := 0
	for i, m := range legal {
		wt := 4
		v := p.Sq[m.From()]
		if v < 0 {
			v = -v
		}
		cap := p.IsCapture(m)
		switch bias {
		case BiasRich:
			if cap {
				wt += 6
			}
			if m.Promo() != 0 {
				wt += 10
			}
			if p.IsCastle(m) {
				wt += 40
			}
			if p.IsEPCapture(m) {
				wt += 40
			}
			if v == ref.P && (m.To()-m.From() == 16 || m.From()-m.To() == 16) {
				wt += 8
			}
		case BiasQuiet:
			if cap || v == ref.P {
				wt = 0
			}
		}
		w[i] = wt
		tot += wt
	}
	if tot == 0 {
		return legal[rng.IntN(len(legal))]
	}
	x := rng.IntN(tot)
	for i := range legal {
		x -= w[i]
		if x < 0 {
			return legal[i]
		}
	}
	return legal[len(legal)-1]
}

// Step is one move of a history with the (normalised) position reached.
type Step struct {
	Move ref.Move
	Pos  ref.Pos
}

// Playout plays up to maxPlies legal moves from start (which must be valid and normalised) and
// returns the steps. The game stops when there is no legal move or the halfmove clock reaches
// clockCap (a legal game ends by rule at 150).
func Playout(rng *rand.Rand, start ref.Pos, maxPlies int, bias MoveBias, clockCap int) []Step {
	steps := make([]Step, 0, maxPlies)
	cur := start
	for ply := 0; ply < maxPlies; ply++ {
		if cur.Half >= clockCap {
			break
		}
		legal := cur.Legal()
		if len(legal) == 0 {
			break
		}
		m := PickMove(rng, &cur, legal, bias)
		n := cur.Make(m)
		n = n.Normalised()
		steps = append(steps, Step{m, n})
		cur = n
	}
	return steps
}

// Shuffle plays a history biased towards oscillations: with probability back each side retracts
// its own previous move when that is legal, otherwise it plays a (quiet-biased or rich) move.
func Shuffle(rng *rand.Rand, start ref.Pos, maxPlies int, back float64, clockCap int) []Step {
	steps := make([]Step, 0, maxPlies)
	cur := start
	var last [2]ref.Move // last move of each side, index by mover colour
	for ply := 0; ply < maxPlies; ply++ {
		if cur.Half >= clockCap {
			break
		}
		legal := cur.Legal()
		if len(legal) == 0 {
			break
		}
		ci := 0
		if !cur.White {
			ci = 1
		}
		var m ref.Move
		picked := false
		if lm := last[ci]; lm != 0 && rng.Float64() < back {
			rev := ref.MkMove(lm.To(), lm.From(), 0)
			for _, l := range legal {
				if l == rev && !cur.IsCapture(l) {
					m, picked = l, true
					break
				}
			}
		}
		if !picked {
			b := BiasQuiet
			if rng.IntN(6) == 0 {
				b = BiasRich
			}
			m = PickMove(rng, &cur, legal, b)
		}
		last[ci] = m
		n := cur.Make(m)
		n = n.Normalised()
		steps = append(steps, Step{m, n})
		cur = n
	}
	return steps
}

// AnyPos draws a valid position from a mix of all random generators and corpus playouts.
func AnyPos(rng *rand.Rand) ref.Pos {
	for {
		switch rng.IntN(8) {
		case 7:
			if p, ok := Castle(rng); ok {
				return p
			}
		case 6:
			if p, ok := PrePush(rng); ok {
				return p
			}
		case 0, 1:
			if p, ok := Dense(rng); ok {
				return p
			}
		case 2:
			if p, ok := Sparse(rng); ok {
				return p
			}
		case 3, 4:
			if p, ok := Adv(rng); ok {
				return p
			}
		default:
			c := Corpus()
			st := Playout(rng, c[rng.IntN(len(c))], rng.IntN(60), BiasRich, 100)
			if len(st) > 0 {
				return st[len(st)-1].Pos
			}
		}
	}
}
