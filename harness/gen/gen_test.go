package gen

import (
	"math/rand/v2"
	"testing"

	"verif/harness/ref"
)

func TestGen(t *testing.T) {
	t.Log("corpus", len(Corpus()))
	rng := rand.New(rand.NewPCG(1, 2))
	st := map[string]int{}
	for i := 0; i < 20000; i++ {
		for name, g := range map[string]func(*rand.Rand) (ref.Pos, bool){"dense": Dense, "sparse": Sparse, "adv": Adv} {
			p, ok := g(rng)
			if !ok {
				st[name+" rej"]++
				continue
			}
			st[name+" ok"]++
			if p.InCheck(p.White) {
				st[name+" check"]++
				if len(p.Legal()) == 0 {
					st[name+" mate"]++
				}
			} else if len(p.Legal()) == 0 {
				st[name+" stale"]++
			}
			if p.EP >= 0 {
				st[name+" ep"]++
			}
		}
	}
	t.Log(st)
	n := Small([]int8{ref.Q}, false, 1, 0, func(p ref.Pos) {})
	t.Log("KQK", n)
	n = Small([]int8{ref.P, -ref.P}, true, 1, 0, func(p ref.Pos) {})
	t.Log("KPKP", n)
	s := Shuffle(rng, Corpus()[0], 300, 0.6, 150)
	t.Log(len(s), s[len(s)-1].Pos.FEN())
}
