// Package ev records what a check run observed: evaluations, distinct non-trivial cases,
// per-monitor counters, samples, violations and inconclusive events, and writes them as a
// result file that the ./check runner merges into evidence/<id>.json.
package ev

import (
	"encoding/json"
	"fmt"
	"hash/fnv"
	"math/rand/v2"
	"os"
	"path/filepath"
	"runtime"
	"runtime/debug"
	"sort"
	"strconv"
	"sync"
	"sync/atomic"
	"time"
)

// Violation is one refuting observation.
type Violation struct {
	Signature string `json:"signature"` // failure class + witness class, matched against known findings
	Witness   any    `json:"witness"`   // enough to replay the case
	Detail    string `json:"detail"`    // human-readable diff
}

// Result is what a stage writes for the runner.
type Result struct {
	Property     string           `json:"property"`
	Stage        string           `json:"stage"`
	Tier         string           `json:"tier"`
	Seed         uint64           `json:"seed"`
	Evaluations  int64            `json:"evaluations"`
	Distinct     int64            `json:"distinct_nontrivial"`
	Counters     map[string]int64 `json:"counters"`
	Samples      []any            `json:"samples"`
	Violations   []Violation      `json:"violations"`
	ViolationCnt int64            `json:"violation_count"`
	Inconclusive []string         `json:"inconclusive"`
	Floors       []string         `json:"floors_missed"`
	Exhaustive   bool             `json:"exhaustive"`
	WallS        float64          `json:"wall_s"`
	Done         bool             `json:"done"`
	HarnessError string           `json:"harness_error,omitempty"`
}

const shards = 64

// Run is the recorder for one stage of one property check.
type Run struct {
	ID, Stage, Tier string
	Seed            uint64
	Replay          string
	outDir          string
	start           time.Time

	evals    atomic.Int64
	progress atomic.Int64

	mu           sync.Mutex
	counters     map[string]int64
	samples      []any
	sampleSeen   int
	violations   []Violation
	sigCount     map[string]int
	violationCnt int64
	inconclusive []string
	harnessErr   string
	exhaustive   bool

	dmu      [shards]sync.Mutex
	distinct [shards]map[uint64]struct{}

	cmu       sync.Mutex
	current   map[int]any
	caseFiles map[int]*os.File
}

// MaxViolations is the number of violations recorded in full; later ones are only counted.
const MaxViolations = 12

// Start reads the runner's environment.
func Start(id string) *Run {
	r := &Run{ID: id, start: time.Now(), counters: map[string]int64{}, current: map[int]any{}}
	r.Stage = os.Getenv("VERIF_STAGE")
	if r.Stage == "" {
		r.Stage = "main"
	}
	r.Tier = os.Getenv("VERIF_TIER")
	if r.Tier != "thorough" {
		r.Tier = "quick"
	}
	r.Seed = 1
	if s := os.Getenv("VERIF_SEED"); s != "" {
		if v, err := strconv.ParseInt(s, 10, 64); err == nil {
			r.Seed = uint64(v)
		}
	}
	r.Replay = os.Getenv("VERIF_REPLAY")
	r.outDir = os.Getenv("VERIF_OUT")
	if r.outDir == "" {
		r.outDir = os.TempDir()
	}
	for i := range r.distinct {
		r.distinct[i] = map[uint64]struct{}{}
	}
	debug.SetTraceback("all")
	go r.heartbeat()
	return r
}

func (r *Run) heartbeat() {
	for {
		time.Sleep(time.Second)
		r.writeProgress()
	}
}

func (r *Run) writeProgress() {
	r.cmu.Lock()
	cur := make(map[string]any, len(r.current))
	for k, v := range r.current {
		cur[strconv.Itoa(k)] = v
	}
	r.cmu.Unlock()
	b, _ := json.Marshal(map[string]any{"progress": r.progress.Load(), "evaluations": r.evals.Load(), "current": cur})
	tmp := filepath.Join(r.outDir, "progress-"+r.Stage+".json.tmp")
	if os.WriteFile(tmp, b, 0o644) == nil {
		os.Rename(tmp, filepath.Join(r.outDir, "progress-"+r.Stage+".json"))
	}
}

// Thorough reports whether the thorough tier was requested.
func (r *Run) Thorough() bool { return r.Tier == "thorough" }

// N picks the tier's case count.
func (r *Run) N(quick, thorough int) int {
	if r.Thorough() {
		return thorough
	}
	return quick
}

// RNG returns a deterministic PCG stream for (seed, stream name, index).
func (r *Run) RNG(stream string, ix int) *rand.Rand {
	h := fnv.New64a()
	h.Write([]byte(stream))
	return rand.New(rand.NewPCG(r.Seed*0x9e3779b97f4a7c15+uint64(ix)+1, h.Sum64()^uint64(ix)*0xbf58476d1ce4e5b9))
}

// Eval counts n evaluated cases and signals progress.
func (r *Run) Eval(n int) { r.evals.Add(int64(n)); r.progress.Add(1) }

// Progress signals liveness without counting an evaluation.
func (r *Run) Progress() { r.progress.Add(1) }

// Count adds n to a named monitor counter.
func (r *Run) Count(name string, n int64) {
	r.mu.Lock()
	r.counters[name] += n
	r.mu.Unlock()
}

// MaxCount keeps the maximum of a named gauge.
func (r *Run) MaxCount(name string, v int64) {
	r.mu.Lock()
	if cur, ok := r.counters[name]; !ok || v > cur {
		r.counters[name] = v
	}
	r.mu.Unlock()
}

// Counter reads a counter.
func (r *Run) Counter(name string) int64 {
	r.mu.Lock()
	defer r.mu.Unlock()
	return r.counters[name]
}

// Local is a per-worker counter set merged at the end, to keep hot loops lock free.
type Local struct {
	C map[string]int64
}

// NewLocal makes a per-worker counter set.
func NewLocal() *Local { return &Local{C: map[string]int64{}} }

// Merge adds a worker's counters.
func (r *Run) Merge(l *Local) {
	r.mu.Lock()
	for k, v := range l.C {
		r.counters[k] += v
	}
	r.mu.Unlock()
	l.C = map[string]int64{}
}

// Distinct records the canonical key of a non-trivial case.
func (r *Run) Distinct(key uint64) {
	s := key % shards
	r.dmu[s].Lock()
	r.distinct[s][key] = struct{}{}
	r.dmu[s].Unlock()
}

// DistinctStr hashes a string key.
func (r *Run) DistinctStr(key string) { r.Distinct(HashStr(key)) }

// HashStr is FNV-1a 64.
func HashStr(s string) uint64 {
	h := uint64(0xcbf29ce484222325)
	for i := 0; i < len(s); i++ {
		h ^= uint64(s[i])
		h *= 0x100000001b3
	}
	return h
}

// Sample keeps up to 12 cases: the first 4 seen and a sparse selection of later ones.
func (r *Run) Sample(v any) {
	r.mu.Lock()
	r.sampleSeen++
	n := r.sampleSeen
	if len(r.samples) < 4 {
		r.samples = append(r.samples, v)
	} else if len(r.samples) < 12 && n&(n-1) == 0 { // powers of two
		r.samples = append(r.samples, v)
	}
	r.mu.Unlock()
}

// SetExhaustive marks the run as a complete enumeration of a finite space.
func (r *Run) SetExhaustive(b bool) { r.mu.Lock(); r.exhaustive = b; r.mu.Unlock() }

// Current logs the case a worker is about to execute (crash witness).
func (r *Run) Current(worker int, v any) {
	r.cmu.Lock()
	r.current[worker] = v
	r.cmu.Unlock()
}

// CurrentSync logs and immediately flushes to disk (use before process-fatal risks).
func (r *Run) CurrentSync(worker int, v any) {
	r.Current(worker, v)
	r.writeProgress()
}

// LogCase writes the input a worker is about to feed to code that may die with a process-fatal
// report (sanitizer, fatal error); the runner reads the file back as the crash witness.
func (r *Run) LogCase(worker int, data []byte) {
	r.cmu.Lock()
	f := r.caseFiles[worker]
	if f == nil {
		var err error
		f, err = os.OpenFile(filepath.Join(r.outDir, fmt.Sprintf("case-%s-%d.bin", r.Stage, worker)), os.O_CREATE|os.O_RDWR|os.O_TRUNC, 0o644)
		if err != nil {
			r.cmu.Unlock()
			return
		}
		if r.caseFiles == nil {
			r.caseFiles = map[int]*os.File{}
		}
		r.caseFiles[worker] = f
	}
	r.cmu.Unlock()
	var hdr [4]byte
	n := len(data)
	hdr[0], hdr[1], hdr[2], hdr[3] = byte(n), byte(n>>8), byte(n>>16), byte(n>>24)
	if n > 1<<16 {
		data = data[:1<<16]
	}
	f.WriteAt(append(hdr[:], data...), 0)
}

// Violation records a refuting observation.
func (r *Run) Violation(signature string, witness any, detail string) {
	r.mu.Lock()
	r.violationCnt++
	if r.sigCount == nil {
		r.sigCount = map[string]int{}
	}
	r.sigCount[signature]++
	// at most 4 witnesses per signature (so that a listed known finding cannot crowd out a
	// different violation), MaxViolations of the first signature, 40 in all
	if (r.sigCount[signature] <= 4 || len(r.sigCount) == 1) && len(r.violations) < 40 && (len(r.violations) < MaxViolations || r.sigCount[signature] <= 4) {
		// freeze the witness now: callers keep using (and extending) the structures it points to
		if raw, err := json.Marshal(witness); err == nil {
			witness = json.RawMessage(raw)
		}
		v := Violation{Signature: signature, Witness: witness, Detail: detail}
		r.violations = append(r.violations, v)
		// also append to a side file at once: a later process-fatal event must not lose it
		if b, err := json.Marshal(v); err == nil {
			if f, err := os.OpenFile(filepath.Join(r.outDir, "violations-"+r.Stage+".jsonl"), os.O_APPEND|os.O_CREATE|os.O_WRONLY, 0o644); err == nil {
				f.Write(append(b, '\n'))
				f.Close()
			}
		}
	}
	r.mu.Unlock()
}

// HookFail returns a callback for the in-situ board hook that records a violation (once per
// distinct message class) instead of panicking.
func (r *Run) HookFail(signature string) func(msg string) {
	var n atomic.Int64
	return func(msg string) {
		if n.Add(1) <= 3 {
			r.Violation(signature, map[string]any{"hook": "board.verifCheck", "message": msg}, msg)
		}
	}
}

// Violations returns the number of violations so far.
func (r *Run) Violations() int64 { r.mu.Lock(); defer r.mu.Unlock(); return r.violationCnt }

// Inconclusive records an inconclusive observation.
func (r *Run) Inconclusive(what string) {
	r.mu.Lock()
	if len(r.inconclusive) < 50 {
		r.inconclusive = append(r.inconclusive, what)
	}
	r.counters["inconclusive"]++
	r.mu.Unlock()
}

// InconclusiveList returns the inconclusive observations recorded so far.
func (r *Run) InconclusiveList() []string {
	r.mu.Lock()
	defer r.mu.Unlock()
	return append([]string(nil), r.inconclusive...)
}

// HarnessError marks the harness itself as broken (never a verdict on chess-3).
func (r *Run) HarnessError(format string, a ...any) {
	r.mu.Lock()
	if r.harnessErr == "" {
		r.harnessErr = fmt.Sprintf(format, a...)
	}
	r.mu.Unlock()
}

// Finish writes the result file. floors lists counters that must be > 0.
func (r *Run) Finish(floors ...string) {
	r.mu.Lock()
	var d int64
	for i := range r.distinct {
		r.dmu[i].Lock()
		d += int64(len(r.distinct[i]))
		r.dmu[i].Unlock()
	}
	res := Result{Property: r.ID, Stage: r.Stage, Tier: r.Tier, Seed: r.Seed, Evaluations: r.evals.Load(), Distinct: d,
		Counters: r.counters, Samples: r.samples, Violations: r.violations, ViolationCnt: r.violationCnt,
		Inconclusive: r.inconclusive, Exhaustive: r.exhaustive, WallS: time.Since(r.start).Seconds(), Done: true,
		HarnessError: r.harnessErr}
	if r.Replay == "" {
		for _, f := range floors {
			if r.counters[f] <= 0 {
				res.Floors = append(res.Floors, f)
			}
		}
	}
	sort.Strings(res.Floors)
	b, err := json.MarshalIndent(res, "", " ")
	r.mu.Unlock()
	if err != nil {
		panic(err)
	}
	if err := os.WriteFile(filepath.Join(r.outDir, "result-"+r.Stage+".json"), b, 0o644); err != nil {
		panic(err)
	}
}

// Workers is the parallelism used by Parallel.
func Workers() int {
	if s := os.Getenv("VERIF_WORKERS"); s != "" {
		if v, err := strconv.Atoi(s); err == nil && v > 0 {
			return v
		}
	}
	return runtime.NumCPU()
}

// Parallel runs f(worker, i) for i in [0,n) on Workers() goroutines; items are handed out
// dynamically but every item's behaviour depends only on i, so results are reproducible.
func Parallel(n int, f func(worker, i int)) {
	w := Workers()
	if w > n {
		w = n
	}
	if w < 1 {
		w = 1
	}
	var next atomic.Int64
	var wg sync.WaitGroup
	for k := 0; k < w; k++ {
		wg.Add(1)
		go func(k int) {
			defer wg.Done()
			for {
				i := int(next.Add(1) - 1)
				if i >= n {
					return
				}
				f(k, i)
			}
		}(k)
	}
	wg.Wait()
}

// ReadReplay loads a replay file's witness into v.
func ReadReplay(path string, v any) error {
	b, err := os.ReadFile(path)
	if err != nil {
		return err
	}
	var w struct {
		Witness json.RawMessage `json:"witness"`
	}
	if err := json.Unmarshal(b, &w); err != nil {
		return err
	}
	return json.Unmarshal(w.Witness, v)
}
