package c12

import (
	"fmt"
	"math/bits"
	"testing"

	"github.com/paulsonkoly/chess-3/attacks"
	"github.com/paulsonkoly/chess-3/chess"

	"verif/harness/ev"
)

type witness struct {
	Kind   string `json:"kind"`
	Square int    `json:"square"`
	Other  int    `json:"other,omitempty"`
	Color  int    `json:"color,omitempty"`
	Occ    string `json:"occupancy,omitempty"`
}

func on(f, r int) bool { return f >= 0 && f < 8 && r >= 0 && r < 8 }

var bishopD = [4][2]int{{1, 1}, {-1, 1}, {-1, -1}, {1, -1}}
var rookD = [4][2]int{{1, 0}, {0, 1}, {-1, 0}, {0, -1}}
var knightD = [8][2]int{{1, 2}, {2, 1}, {2, -1}, {1, -2}, {-1, -2}, {-2, -1}, {-2, 1}, {-1, 2}}
var kingD = [8][2]int{{1, 0}, {1, 1}, {0, 1}, {-1, 1}, {-1, 0}, {-1, -1}, {0, -1}, {1, -1}}

// rays walks each ray up to and including the first occupied square.
func rays(sq int, occ uint64, ds [4][2]int) uint64 {
	var res uint64
	f0, r0 := sq%8, sq/8
	for _, d := range ds {
		for f, r := f0+d[0], r0+d[1]; on(f, r); f, r = f+d[0], r+d[1] {
			b := uint64(1) << (r*8 + f)
			res |= b
			if occ&b != 0 {
				break
			}
		}
	}
	return res
}

// relevant is the harness-computed relevant-occupancy mask: ray squares whose occupancy can change
// the result, i.e. all ray squares except the last square of each ray.
func relevant(sq int, ds [4][2]int) uint64 {
	var res uint64
	f0, r0 := sq%8, sq/8
	for _, d := range ds {
		for f, r := f0+d[0], r0+d[1]; on(f+d[0], r+d[1]); f, r = f+d[0], r+d[1] {
			res |= uint64(1) << (r*8 + f)
		}
	}
	return res
}

func leaper(sq int, ds [8][2]int) uint64 {
	var res uint64
	for _, d := range ds {
		if f, r := sq%8+d[0], sq/8+d[1]; on(f, r) {
			res |= uint64(1) << (r*8 + f)
		}
	}
	return res
}

func pawnCaps(set uint64, color int) uint64 {
	var res uint64
	dr := 1
	if color == 1 {
		dr = -1
	}
	for s := 0; s < 64; s++ {
		if set&(1<<s) == 0 {
			continue
		}
		for _, df := range []int{-1, 1} {
			if f, r := s%8+df, s/8+dr; on(f, r) {
				res |= uint64(1) << (r*8 + f)
			}
		}
	}
	return res
}

func pawnPush(set uint64, color int) uint64 {
	var res uint64
	dr := 1
	if color == 1 {
		dr = -1
	}
	for s := 0; s < 64; s++ {
		if set&(1<<s) == 0 {
			continue
		}
		if f, r := s%8, s/8+dr; on(f, r) {
			res |= uint64(1) << (r*8 + f)
		}
	}
	return res
}

func between(a, b int) uint64 {
	fa, ra, fb, rb := a%8, a/8, b%8, b/8
	df, dr := fb-fa, rb-ra
	if a == b || !(df == 0 || dr == 0 || df == dr || df == -dr) {
		return 0
	}
	sf, sr := sign(df), sign(dr)
	var res uint64
	for f, r := fa+sf, ra+sr; f != fb || r != rb; f, r = f+sf, r+sr {
		res |= uint64(1) << (r*8 + f)
	}
	return res
}

func sign(x int) int {
	switch {
	case x < 0:
		return -1
	case x > 0:
		return 1
	}
	return 0
}

func TestCheck(t *testing.T) {
	r := ev.Start("C12")
	if r.Replay != "" {
		var w witness
		if err := ev.ReadReplay(r.Replay, &w); err != nil {
			t.Fatal(err)
		}
		var occ uint64
		fmt.Sscanf(w.Occ, "%x", &occ)
		switch w.Kind {
		case "rook":
			slider(r, "rook", w.Square, occ)
		case "bishop":
			slider(r, "bishop", w.Square, occ)
		default:
			static(r)
		}
		r.Finish()
		return
	}
	// sliders: every square x every subset of the relevant mask x 64 noise patterns outside the mask
	noise := r.N(256, 4096)
	ev.Parallel(128, func(wk, i int) {
		sq := i / 2
		kind, ds := "rook", rookD
		if i%2 == 1 {
			kind, ds = "bishop", bishopD
		}
		mask := relevant(sq, ds)
		rng := r.RNG("c12-noise", i)
		sub := uint64(0)
		n := 0
		for {
			slider(r, kind, sq, sub)
			n++
			for k := 0; k < noise; k++ {
				extra := rng.Uint64() &^ mask
				if k%4 == 0 {
					extra &= rng.Uint64() // sparser
				}
				slider(r, kind, sq, sub|extra)
				n++
			}
			sub = (sub - mask) & mask
			if sub == 0 {
				break
			}
		}
		r.Count(kind+"_mask_subsets", int64(1)<<bits.OnesCount64(mask))
		r.Count(kind+"_lookups", int64(n))
		r.Distinct(uint64(i))
		if sq%16 == 5 {
			r.Sample(map[string]any{"kind": kind, "square": sq, "relevant_mask": fmt.Sprintf("%016x", mask), "subsets": 1 << bits.OnesCount64(mask), "noise_patterns_per_subset": noise})
		}
	})
	// random full-board occupancies
	nr := r.N(20_000_000, 1_000_000_000)
	ev.Parallel(64, func(wk, i int) {
		rng := r.RNG("c12-rand", i)
		for k := 0; k < nr/64; k++ {
			occ := rng.Uint64()
			switch k % 3 {
			case 1:
				occ &= rng.Uint64()
			case 2:
				occ &= rng.Uint64() & rng.Uint64()
			}
			slider(r, "rook", i, occ)
			slider(r, "bishop", i, occ)
		}
		r.Count("random_occupancy_lookups", int64(2*(nr/64)))
	})
	static(r)
	// multi-pawn union law
	np := r.N(2_000_000, 100_000_000)
	ev.Parallel(16, func(wk, i int) {
		rng := r.RNG("c12-pawns", i)
		for k := 0; k < np/16; k++ {
			set := rng.Uint64() & rng.Uint64()
			if k%5 == 0 {
				set = rng.Uint64()
			}
			for c := 0; c < 2; c++ {
				r.Eval(1)
				if got, want := uint64(attacks.PawnCaptureMoves(chess.BitBoard(set), chess.Color(c))), pawnCaps(set, c); got != want {
					r.Violation("C12:pawn-capture-set-mismatch", witness{Kind: "pawns", Color: c, Occ: fmt.Sprintf("%016x", set)}, fmt.Sprintf("set %016x colour %d: got %016x want %016x", set, c, got, want))
				}
				if got, want := uint64(attacks.PawnSinglePushMoves(chess.BitBoard(set), chess.Color(c))), pawnPush(set, c); got != want {
					r.Violation("C12:pawn-push-set-mismatch", witness{Kind: "pawns", Color: c, Occ: fmt.Sprintf("%016x", set)}, fmt.Sprintf("set %016x colour %d: got %016x want %016x", set, c, got, want))
				}
			}
		}
		r.Count("multi_pawn_sets", int64(np/16))
	})
	r.SetExhaustive(true)
	r.Finish("rook_lookups", "bishop_lookups", "random_occupancy_lookups", "inbetween_pairs", "leaper_squares", "multi_pawn_sets")
}

func slider(r *ev.Run, kind string, sq int, occ uint64) {
	var got, want uint64
	if kind == "rook" {
		got, want = uint64(attacks.RookMoves(chess.Square(sq), chess.BitBoard(occ))), rays(sq, occ, rookD)
	} else {
		got, want = uint64(attacks.BishopMoves(chess.Square(sq), chess.BitBoard(occ))), rays(sq, occ, bishopD)
	}
	r.Eval(1)
	if got != want {
		r.Violation("C12:"+kind+"-attack-set-mismatch", witness{Kind: kind, Square: sq, Occ: fmt.Sprintf("%016x", occ)},
			fmt.Sprintf("%s on %d occupancy %016x: table %016x, ray walk %016x", kind, sq, occ, got, want))
	}
}

func static(r *ev.Run) {
	for sq := 0; sq < 64; sq++ {
		r.Eval(2)
		r.Count("leaper_squares", 2)
		if got, want := uint64(attacks.KingMoves(chess.Square(sq))), leaper(sq, kingD); got != want {
			r.Violation("C12:king-set-mismatch", witness{Kind: "king", Square: sq}, fmt.Sprintf("king %d: got %016x want %016x", sq, got, want))
		}
		if got, want := uint64(attacks.KnightMoves(chess.Square(sq))), leaper(sq, knightD); got != want {
			r.Violation("C12:knight-set-mismatch", witness{Kind: "knight", Square: sq}, fmt.Sprintf("knight %d: got %016x want %016x", sq, got, want))
		}
		for c := 0; c < 2; c++ {
			r.Eval(2)
			one := uint64(1) << sq
			if got, want := uint64(attacks.PawnCaptureMoves(chess.BitBoard(one), chess.Color(c))), pawnCaps(one, c); got != want {
				r.Violation("C12:pawn-capture-set-mismatch", witness{Kind: "pawn", Square: sq, Color: c}, fmt.Sprintf("pawn capture %d colour %d: got %016x want %016x", sq, c, got, want))
			}
			if got, want := uint64(attacks.PawnSinglePushMoves(chess.BitBoard(one), chess.Color(c))), pawnPush(one, c); got != want {
				r.Violation("C12:pawn-push-set-mismatch", witness{Kind: "pawn", Square: sq, Color: c}, fmt.Sprintf("pawn push %d colour %d: got %016x want %016x", sq, c, got, want))
			}
		}
		for o := 0; o < 64; o++ {
			r.Eval(1)
			r.Count("inbetween_pairs", 1)
			ends := uint64(1)<<sq | uint64(1)<<o
			if got, want := uint64(attacks.InBetween[sq][o])&^ends, between(sq, o); got != want {
				r.Violation("C12:inbetween-mismatch", witness{Kind: "inbetween", Square: sq, Other: o}, fmt.Sprintf("InBetween[%d][%d] interior: got %016x want %016x", sq, o, got, want))
			}
		}
		r.Distinct(uint64(1000 + sq))
	}
}
