package c13

import (
	"bufio"
	"fmt"
	"hash/crc32"
	"io"
	"math/rand/v2"
	"runtime"
	"strings"
	"sync"
	"sync/atomic"
	"testing"
	"testing/synctest"
	"time"

	"github.com/paulsonkoly/chess-3/board"
	"github.com/paulsonkoly/chess-3/chess"
	"github.com/paulsonkoly/chess-3/move"
	"github.com/paulsonkoly/chess-3/search"
	"github.com/paulsonkoly/chess-3/uci"
)

// mock is a controllable Search: it emits nInfo scripted info lines and yields to the harness at
// every progress point (before each info, and before returning); it polls PonderHit between
// infos only, like the real search, and returns at once when Stop closes.
type mock struct {
	sid   int
	nInfo int
	// noTailPoll: the last progress point ("about to return") is not followed by a poll of
	// PonderHit - the real search polls between iterations only, so a ponderhit that arrives
	// after its last poll (while the final info line is written, or just before it returns) is
	// never received by the search
	noTailPoll bool
	at         chan int      // mock -> harness: reached progress point i of the current search
	permit     chan struct{} // harness -> mock: proceed one step
	kill       chan struct{} // closed by the harness at clean-up
	running    atomic.Bool
	hits       atomic.Int64
	calls      atomic.Int64
}

func (m *mock) Clear()       {}
func (m *mock) ResizeTT(int) {}

func (m *mock) Go(b *board.Board, opts ...search.Option) (chess.Score, move.Move, move.Move) {
	var o search.Options
	for _, f := range opts {
		f(&o)
	}
	m.sid++
	m.calls.Add(1)
	m.running.Store(true)
	defer m.running.Store(false)
	for i := 0; i <= m.nInfo; i++ {
		select {
		case m.at <- i:
		case <-o.Stop:
			return 0, move.From(chess.E2) | move.To(chess.E4), 0
		case <-m.kill:
			return 0, 0, 0
		}
		select {
		case <-m.permit:
		case <-o.Stop:
			return 0, move.From(chess.E2) | move.To(chess.E4), 0
		case <-m.kill:
			return 0, 0, 0
		}
		if o.PonderHit != nil && !(m.noTailPoll && i == m.nInfo) {
			select {
			case <-o.PonderHit:
				m.hits.Add(1)
				o.PonderHit = nil
			default:
			}
		}
		if i < m.nInfo {
			// long, variable-length payloads exercise the pooled output buffers; the CRC exposes torn
			// or recycled-too-early buffers
			pad := strings.Repeat("x", 5+(m.sid*53+i*37)%400)
			body := fmt.Sprintf("info string sid=%d seq=%d pad=%s", m.sid, i, pad)
			fmt.Fprintf(o.Output, "%s crc=%08x\n", body, crc32.ChecksumIEEE([]byte(body)))
		}
	}
	return 0, move.From(chess.E2) | move.To(chess.E4), move.From(chess.E7) | move.To(chess.E5)
}

// rig connects a real uci.Driver to the harness inside a synctest bubble.
type rig struct {
	tr       Trace
	pw       *io.PipeWriter
	ow       *io.PipeWriter
	sendq    chan string
	eof      chan struct{} // closed: the sender closes stdin after draining the queue
	done     chan struct{} // Run returned
	m        *mock
	mu       sync.Mutex    // protects gate, hold, holdAt, passes (shared with the consumer and the hook)
	gate     chan struct{} // non-nil: the consumer waits for a token before every read (back-pressure)
	hold     chan struct{} // non-nil and holdAt>0: the interrupt goroutine parks at that pass of the hook
	holdAt   int
	passes   int
	baseline int
	eofDone  bool
	aborted  bool
	early    []Issue
	// GUI state
	searching bool
	pondering bool
	quitSent  bool
	ponderOpt bool
	sent      []string
}

func newRig(nInfo int) *rig {
	pr, pw := io.Pipe()
	or, ow := io.Pipe()
	r := &rig{pw: pw, ow: ow, sendq: make(chan string, 256), eof: make(chan struct{}), done: make(chan struct{}), baseline: 0}
	r.m = &mock{nInfo: nInfo, at: make(chan int), permit: make(chan struct{}), kill: make(chan struct{})}
	uci.VerifPoint = func(name string) {
		if name != "interrupt.loop" {
			return
		}
		r.mu.Lock()
		r.passes++
		var h chan struct{}
		if r.hold != nil && r.holdAt > 0 && r.passes == r.holdAt {
			h = r.hold
		}
		r.mu.Unlock()
		if h != nil {
			<-h
		}
	}
	d := uci.NewDriver(uci.WithInput(pr), uci.WithOutput(ow), uci.WithError(io.Discard), uci.WithSearch(r.m))
	go func() { d.Run(); ow.Close(); close(r.done) }()
	go func() { // consumer
		sc := bufio.NewScanner(or)
		sc.Buffer(make([]byte, 1<<16), 1<<20)
		for {
			r.mu.Lock()
			g := r.gate
			r.mu.Unlock()
			if g != nil {
				<-g
			}
			if !sc.Scan() {
				return
			}
			r.tr.add(false, sc.Text())
		}
	}()
	go func() { // sender: the send record is appended before the command is written
		for {
			select {
			case s := <-r.sendq:
				r.tr.add(true, s)
				if _, err := fmt.Fprintf(pw, "%s\n", s); err != nil {
					return
				}
			case <-r.eof:
				for {
					select {
					case s := <-r.sendq:
						r.tr.add(true, s)
						fmt.Fprintf(pw, "%s\n", s)
						continue
					default:
					}
					break
				}
				pw.Close()
				return
			}
		}
	}()
	return r
}

// send queues a command and updates the GUI state.
func (r *rig) send(s string) {
	if r.aborted || r.eofDone {
		return
	}
	f := strings.Fields(s)
	defer func() {
		if !r.aborted {
			r.sent = append(r.sent, s)
			r.sendq <- s
		}
	}()
	switch f[0] {
	case "go", "position":
		if r.searching {
			// a conforming GUI sends a new go / position only after the previous bestmove arrived
			r.settle()
			if r.searching {
				r.aborted = true
				return
			}
		}
		if f[0] == "go" {
			r.searching = true
			r.mu.Lock()
			r.passes = 0
			r.mu.Unlock()
			r.pondering = r.ponderOpt && strings.Contains(s, "ponder")
		}
	case "quit":
		r.quitSent = true
	case "ponderhit":
		r.pondering = false
	case "setoption":
		if len(f) >= 5 && f[2] == "Ponder" {
			r.ponderOpt = f[4] == "true"
		}
	}
}

// settle behaves like a GUI waiting for the outstanding bestmove: it frees everything the harness
// holds, lets the search complete and, if the search cannot end by itself, sends stop.
func (r *rig) settle() {
	r.wait()
	if !r.searching {
		return
	}
	r.release()
	r.resume()
	r.wait()
	for i := 0; i < 64 && r.searching; i++ {
		if !r.step() && r.m.running.Load() {
			r.sent = append(r.sent, "stop")
			r.sendq <- "stop"
		}
		r.wait()
	}
	if r.searching {
		r.early = append(r.early, Issue{"go-not-answered-while-everything-is-idle", fmt.Sprintf("all goroutines are blocked, %d go sent, %d bestmove received", r.gos(), r.tr.count("bestmove"))})
	}
}

// wait lets every goroutine of the bubble run until all are durably blocked, then refreshes the
// GUI state from what has been received.
func (r *rig) wait() {
	synctest.Wait()
	if r.searching && r.tr.count("bestmove") >= r.gos() {
		r.searching = false
		r.pondering = false
	}
}

func (r *rig) gos() int {
	n := 0
	for _, s := range r.sent {
		if strings.HasPrefix(s, "go") {
			n++
		}
	}
	return n
}

// step permits one mock step if the mock is waiting at a progress point.
func (r *rig) step() bool {
	select {
	case <-r.m.at:
		r.m.permit <- struct{}{}
		return true
	default:
		return false
	}
}

func (r *rig) stall() {
	r.mu.Lock()
	if r.gate == nil {
		r.gate = make(chan struct{})
	}
	r.mu.Unlock()
}

func (r *rig) resume() {
	r.mu.Lock()
	if r.gate != nil {
		close(r.gate)
		r.gate = nil
	}
	r.mu.Unlock()
}

// park arms the hook: the interrupt goroutine stops at the given pass (counted from now).
func (r *rig) park(pass int) {
	r.mu.Lock()
	if r.hold == nil {
		r.hold = make(chan struct{})
		r.holdAt = r.passes + pass
	}
	r.mu.Unlock()
}

func (r *rig) release() {
	r.mu.Lock()
	if r.hold != nil {
		close(r.hold)
		r.hold = nil
		r.holdAt = 0
	}
	r.mu.Unlock()
}

// holdAttack is what a conforming GUI may do after a search whose interrupt goroutine was parked:
// wait for bestmove (releasing the goroutine if bestmove cannot come otherwise); then stall its
// own reading, keep the handler busy with isready, queue the next go and only then let the parked
// goroutine continue.
func (r *rig) holdAttack() {
	r.wait()
	if r.searching {
		r.release()
		r.wait()
	}
	if r.searching {
		r.settle()
		return
	}
	r.stall()
	for i := 0; i < 7; i++ {
		r.send("isready")
	}
	r.wait()
	r.send("go infinite")
	r.wait()
	r.release()
	r.wait()
	r.resume()
	r.wait()
}

// finish behaves like a GUI that wants to leave: everything is released, outstanding searches are
// allowed to complete, quit (or EOF) is sent; it reports the findings of the scenario.
func (r *rig) finish(useEOF bool) (issues []Issue, st Stats) {
	r.release()
	r.resume()
	r.wait()
	if !r.eofDone && !r.quitSent {
		r.settle()
	} else {
		// quit / EOF was already sent: only free the mock, a terminating driver stops the search itself
		for i := 0; i < 64 && r.searching; i++ {
			r.step()
			r.wait()
		}
	}
	issues = append(issues, r.early...)
	if !r.eofDone {
		if !r.quitSent && !useEOF && !r.aborted {
			r.send("quit")
			r.wait()
		}
		r.eofDone = true
		close(r.eof)
	}
	r.wait()
	finished := false
	select {
	case <-r.done:
		finished = true
	default:
		issues = append(issues, Issue{"driver-does-not-terminate-after-quit-or-eof", "quit / end of input was sent, every goroutine is blocked and Run has not returned"})
	}
	// clean-up so that the bubble can end
	close(r.m.kill)
	r.wait()
	if !finished {
		r.ow.Close()
		r.wait()
	}
	ci, st := Check(r.tr.Snapshot(), finished)
	issues = append(issues, ci...)
	if finished {
		// census: besides the harness goroutine and synctest's own two, no goroutine of this bubble
		// may be left (a goroutine that is just exiting is given the chance to finish first)
		var extra []string
		for try := 0; try < 100; try++ {
			extra = extra[:0]
			buf := make([]byte, 1<<17)
			buf = buf[:runtime.Stack(buf, true)]
			for _, g := range strings.Split(string(buf), "\n\n") {
				if !strings.Contains(strings.SplitN(g, "\n", 2)[0], "synctest bubble") {
					continue
				}
				if strings.Contains(g, "c13.(*rig).finish") || strings.Contains(g, "internal/synctest.Run") || strings.Contains(g, "testingSynctestTest") {
					continue
				}
				if f := strings.Fields(g); len(f) > 1 && leakedG[f[1]] {
					continue // left behind by an earlier scenario's dead bubble (already reported there)
				}
				extra = append(extra, g)
			}
			if len(extra) == 0 {
				break
			}
			runtime.Gosched()
		}
		if len(extra) > 0 {
			issues = append(issues, Issue{"goroutines-left-after-run-returned", fmt.Sprintf("%d goroutine(s) of the bubble remain after Run returned and the pipes were closed:\n%s", len(extra), strings.Join(extra, "\n\n"))})
		}
	}
	uci.VerifPoint = nil
	return
}

// ---- scenario descriptions (replayable)

// Scenario is a replayable schedule: a list of harness actions executed inside one bubble.
type Scenario struct {
	Kind    string   `json:"kind"`
	NInfo   int      `json:"mock_info_lines"`
	Actions []string `json:"actions"`
	EOF     bool     `json:"end_with_eof"`
	// NoTailPoll: the mock search does not poll PonderHit after its last progress point
	NoTailPoll bool `json:"mock_no_tail_poll,omitempty"`
}

// leakedG: ids of goroutines left behind by dead bubbles (see run); the census of later scenarios ignores them.
var leakedG = map[string]bool{}

// run executes the scenario in a fresh bubble and returns the findings.
func run(t *testing.T, sc *Scenario) (issues []Issue, st Stats, ev []Event, orderSig string) {
	func() {
		// A driver whose goroutines wait for each other for good (nothing the GUI side can close or
		// send frees them) cannot be cleaned up: when the scenario ends the bubble panics with
		// "main bubble goroutine has exited but blocked goroutines remain". finish() has already
		// reported the missing termination logically at that point, so the panic is absorbed here
		// and the stuck goroutines are added to the report (they are leaked with their dead
		// bubble). A bubble panic without such a finding is not absorbed.
		defer func() {
			e := recover()
			if e == nil {
				return
			}
			msg := fmt.Sprint(e)
			stuck := false
			for _, is := range issues {
				if is.Sig == "driver-does-not-terminate-after-quit-or-eof" {
					stuck = true
				}
			}
			if !stuck || !strings.Contains(msg, "blocked goroutines remain") {
				panic(e)
			}
			buf := make([]byte, 1<<18)
			buf = buf[:runtime.Stack(buf, true)]
			var in []string
			for _, g := range strings.Split(string(buf), "\n\n") {
				if !strings.Contains(strings.SplitN(g, "\n", 2)[0], "synctest bubble") {
					continue
				}
				if f := strings.Fields(g); len(f) > 1 {
					leakedG[f[1]] = true
				}
				if strings.Contains(g, "github.com/paulsonkoly/chess-3/") {
					in = append(in, g)
				}
			}
			issues = append(issues, Issue{"driver-goroutines-blocked-for-good", fmt.Sprintf("after quit / end of input and after the pipes were closed %d goroutine(s) inside chess-3 remain blocked on each other (%s):\n%s", len(in), msg, strings.Join(in, "\n\n"))})
			uci.VerifPoint = nil
		}()
		runBubble(t, sc, &issues, &st, &ev)
	}()
	// signature of the observed event order (kinds only)
	var sb strings.Builder
	for _, e := range ev {
		w := strings.Fields(e.Text)
		k := "?"
		if len(w) > 0 {
			k = w[0]
		}
		if e.Send {
			sb.WriteString(">" + k + ";")
		} else {
			sb.WriteString("<" + k + ";")
		}
	}
	return issues, st, ev, sb.String()
}

func runBubble(t *testing.T, sc *Scenario, issuesp *[]Issue, stp *Stats, evp *[]Event) {
	var issues []Issue
	var st Stats
	var ev []Event
	defer func() { *issuesp, *stp, *evp = issues, st, ev }()
	synctest.Test(t, func(t *testing.T) {
		r := newRig(sc.NInfo)
		r.m.noTailPoll = sc.NoTailPoll
		for _, a := range sc.Actions {
			f := strings.SplitN(a, " ", 2)
			switch f[0] {
			case "send":
				r.send(f[1])
			case "wait":
				r.wait()
			case "step":
				r.wait()
				r.step()
			case "stall":
				r.stall()
			case "resume":
				r.resume()
			case "park":
				var k int
				fmt.Sscan(f[1], &k)
				r.park(k)
			case "release":
				r.release()
			case "sleep":
				var ms int
				fmt.Sscan(f[1], &ms)
				time.Sleep(time.Duration(ms) * time.Millisecond)
			case "bestmove?":
				r.settle()
			case "holdattack":
				r.holdAttack()
			case "eof":
				if !r.eofDone {
					r.eofDone = true
					close(r.eof)
				}
			}
		}
		issues, st = r.finish(sc.EOF)
		ev = r.tr.Snapshot()
	})
}

var goForms = []string{"go infinite", "go depth 5", "go nodes 1000", "go movetime 40", "go wtime 1000 btime 1000 winc 10 binc 10", "go ponder wtime 900 btime 900", "go ponder", "go ponder nodes 777", "go ponder movetime 30"}

// randomScenario is the random schedule explorer: a random walk over the control actions, with
// the command choice restricted to what a conforming GUI may send in the current state.
func randomScenario(rng *rand.Rand) *Scenario {
	sc := &Scenario{Kind: "random", NInfo: rng.IntN(4), EOF: rng.IntN(3) == 0}
	sc.NoTailPoll = rng.IntN(2) == 0
	searching, pondering, ponderOpt, quit := false, false, false, false
	steps := 0
	add := func(a string) { sc.Actions = append(sc.Actions, a) }
	n := 8 + rng.IntN(32)
	for i := 0; i < n && !quit; i++ {
		switch x := rng.IntN(100); {
		case x < 34: // send the next conforming command
			if searching {
				switch y := rng.IntN(10); {
				case y < 3:
					add("send stop")
					add("bestmove?")
					searching, pondering = false, false
				case y < 7:
					add("send isready")
				case y < 8 && pondering:
					add("send ponderhit")
					pondering = false
				case y < 9 && rng.IntN(4) == 0:
					add("send quit")
					quit = true
				default:
					add("send isready")
				}
			} else {
				switch y := rng.IntN(12); {
				case y < 5:
					g := goForms[rng.IntN(len(goForms))]
					add("send position startpos moves e2e4")
					add("send " + g)
					searching, steps = true, 0
					pondering = ponderOpt && strings.Contains(g, "ponder")
				case y < 7:
					add("send isready")
				case y < 8:
					add("send uci")
				case y < 9:
					ponderOpt = !ponderOpt
					add(fmt.Sprintf("send setoption name Ponder value %v", ponderOpt))
				case y < 10:
					add("send ucinewgame")
				case y < 11:
					add([]string{"send fen", "send eval"}[rng.IntN(2)])
				default:
					add(fmt.Sprintf("send setoption name Hash value %d", 1+rng.IntN(4)))
				}
			}
		case x < 58:
			add("wait")
		case x < 78:
			if searching {
				add("step")
				steps++
				if steps > sc.NInfo {
					// the mock returns by itself after the last permit
					add("bestmove?")
					searching, pondering = false, false
				}
			}
		case x < 84:
			add("stall")
		case x < 90:
			add("resume")
		case x < 95:
			if searching {
				add(fmt.Sprintf("park %d", 1+rng.IntN(3)))
			}
		case x < 98:
			add("release")
		default:
			add(fmt.Sprintf("sleep %d", 1+rng.IntN(60)))
			if searching && rng.IntN(2) == 0 {
				// a timed search may have hit its hard deadline meanwhile
				add("bestmove?")
			}
		}
		if len(sc.Actions) > 0 && sc.Actions[len(sc.Actions)-1] == "bestmove?" {
			// the GUI state is exact again only after the wait inside bestmove?
		}
	}
	return sc
}
