// Package c13 monitors the UCI driver: input/output traces recorded at the driver's pipes are
// checked offline against the request/response specification of property C13.
package c13

import (
	"fmt"
	"hash/crc32"
	"regexp"
	"strings"
	"sync"

	"verif/harness/strace"
)

// Event is one record of the unified trace: a command the harness is about to write (send) or a
// line the consumer has just read (recv). One log, one sequence counter, one mutex.
type Event struct {
	Send bool   `json:"send"`
	Text string `json:"text"`
}

// Trace is the unified log.
type Trace struct {
	mu sync.Mutex
	ev []Event
}

func (t *Trace) add(send bool, text string) {
	t.mu.Lock()
	t.ev = append(t.ev, Event{send, text})
	t.mu.Unlock()
}

// Snapshot copies the log.
func (t *Trace) Snapshot() []Event {
	t.mu.Lock()
	defer t.mu.Unlock()
	return append([]Event(nil), t.ev...)
}

// count returns how many received lines have the prefix.
func (t *Trace) count(prefix string) int {
	t.mu.Lock()
	defer t.mu.Unlock()
	n := 0
	for _, e := range t.ev {
		if !e.Send && strings.HasPrefix(e.Text, prefix) {
			n++
		}
	}
	return n
}

// Issue is one finding of the trace checker.
type Issue struct {
	Sig    string
	Detail string
}

var (
	reBest   = regexp.MustCompile(`^bestmove ([a-h][1-8][a-h][1-8][qrbn]?|0000)( ponder [a-h][1-8][a-h][1-8][qrbn]?)?$`)
	reMock   = regexp.MustCompile(`^info string sid=(\d+) seq=(\d+) pad=x* crc=([0-9a-f]{8})$`)
	reFEN    = regexp.MustCompile(`^[pnbrqkPNBRQK1-8/]+ [wb] (-|[KQkq]+) (-|[a-h][1-8]) -?\d+ \d+$`)
	reEval   = regexp.MustCompile(`^((cp|mate) )?-?\d+(\.\d+)?$`)
	reOption = regexp.MustCompile(`^option name .+ type (check|spin|combo|button|string)( .*)?$`)
	reID     = regexp.MustCompile(`^id (name|author) \S.*$`)
)

// Stats is what the checker observed.
type Stats struct {
	Gos, Bestmoves, Isready, Readyok, MockInfos, RealInfos, Lines, Uci, Uciok int
}

// Check applies the C13 trace specification. finished says whether quit/EOF was sent and Run returned,
// so that the totals must balance.
func Check(ev []Event, finished bool) (issues []Issue, st Stats) {
	add := func(sig, f string, a ...any) {
		if len(issues) < 8 {
			issues = append(issues, Issue{sig, fmt.Sprintf(f, a...)})
		}
	}
	searching := false
	nextSeq := 0
	fenPending, evalPending := 0, 0
	uciOpen := 0
	for i, e := range ev {
		if e.Send {
			f := strings.Fields(e.Text)
			if len(f) == 0 {
				continue
			}
			switch f[0] {
			case "go":
				if searching {
					add("HARNESS:non-conforming-script", "event %d: go sent while a search is outstanding", i)
				}
				st.Gos++
				searching = true
				nextSeq = 0
			case "isready":
				st.Isready++
			case "uci":
				st.Uci++
				uciOpen++
			case "fen":
				fenPending++
			case "eval":
				evalPending++
			}
			continue
		}
		st.Lines++
		l := e.Text
		switch {
		case strings.HasPrefix(l, "bestmove"):
			if !reBest.MatchString(l) {
				add("malformed-output-line", "event %d: %q", i, l)
			}
			st.Bestmoves++
			if st.Bestmoves > st.Gos || !searching {
				add("bestmove-without-go", "event %d: %q is bestmove number %d but only %d go commands were sent (or the search was already answered)", i, l, st.Bestmoves, st.Gos)
			}
			searching = false
		case l == "readyok":
			st.Readyok++
			if st.Readyok > st.Isready {
				add("readyok-without-isready", "event %d: readyok number %d but only %d isready were sent", i, st.Readyok, st.Isready)
			}
		case strings.HasPrefix(l, "info string sid="):
			st.MockInfos++
			m := reMock.FindStringSubmatch(l)
			if m == nil {
				add("torn-or-malformed-info-line", "event %d: %q", i, l)
				continue
			}
			body := l[:strings.LastIndex(l, " crc=")]
			if fmt.Sprintf("%08x", crc32.ChecksumIEEE([]byte(body))) != m[3] {
				add("torn-info-line-crc", "event %d: checksum mismatch in %q", i, l)
			}
			var sid, seq int
			fmt.Sscan(m[1], &sid)
			fmt.Sscan(m[2], &seq)
			if !searching || sid != st.Gos {
				add("info-outside-its-search-window", "event %d: info of search %d (seq %d) received while go commands sent=%d, search outstanding=%v", i, sid, seq, st.Gos, searching)
			} else if seq != nextSeq {
				add("info-lines-lost-duplicated-or-reordered", "event %d: search %d info seq %d, expected %d", i, sid, seq, nextSeq)
			}
			nextSeq = seq + 1
		case strings.HasPrefix(l, "info "):
			st.RealInfos++
			// any line of the UCI info grammar is a whole line; which fields it carries is the engine's choice
			in, ok := strace.ParseInfo(l)
			if !ok {
				add("torn-or-malformed-info-line", "event %d: %q", i, l)
			}
			if in.Text {
				continue // free text may be printed at any time (e.g. in answer to setoption)
			}
			if !searching {
				add("info-outside-its-search-window", "event %d: %q received while no search is outstanding (go sent=%d, bestmove received=%d)", i, l, st.Gos, st.Bestmoves)
			}
		case l == "uciok":
			st.Uciok++
			if st.Uciok > st.Uci {
				add("uciok-without-uci", "event %d", i)
			}
			uciOpen--
		case reID.MatchString(l) || reOption.MatchString(l):
			if uciOpen <= 0 {
				add("identification-line-without-uci", "event %d: %q", i, l)
			}
		case reFEN.MatchString(l):
			if fenPending <= 0 {
				add("unrequested-output-line", "event %d: %q", i, l)
			}
			fenPending--
		case reEval.MatchString(l):
			if evalPending <= 0 {
				add("unrequested-output-line", "event %d: %q", i, l)
			}
			evalPending--
		default:
			add("torn-or-unknown-output-line", "event %d: %q", i, l)
		}
	}
	if finished {
		if st.Bestmoves != st.Gos {
			add("go-not-answered-exactly-once", "%d go commands sent, %d bestmove lines received", st.Gos, st.Bestmoves)
		}
		if st.Readyok != st.Isready {
			add("isready-not-answered-exactly-once", "%d isready sent, %d readyok received", st.Isready, st.Readyok)
		}
		if st.Uciok != st.Uci {
			add("uci-not-answered-exactly-once", "%d uci sent, %d uciok received", st.Uci, st.Uciok)
		}
	}
	return
}
