package c13

import (
	"fmt"
	"strings"
	"testing"

	"verif/harness/ev"
)

type witness struct {
	Kind     string    `json:"kind"`
	Scenario *Scenario `json:"scenario,omitempty"`
	Real     *realCase `json:"real,omitempty"`
	Trace    []Event   `json:"trace_tail,omitempty"`
}

func tail(ev []Event, n int) []Event {
	if len(ev) > n {
		return ev[len(ev)-n:]
	}
	return ev
}

// judgeScenario runs one scenario and records findings.
func judgeScenario(t *testing.T, r *ev.Run, sc *Scenario, sigs map[string]struct{}, shapes map[string]struct{}) bool {
	r.CurrentSync(0, sc)
	issues, st, evs, order := run(t, sc)
	r.Eval(1)
	r.Count("scenarios_"+sc.Kind, 1)
	r.Count("go_commands", int64(st.Gos))
	r.Count("bestmove_lines", int64(st.Bestmoves))
	r.Count("isready_commands", int64(st.Isready))
	r.Count("readyok_lines", int64(st.Readyok))
	r.Count("mock_info_lines_crc_checked", int64(st.MockInfos))
	r.Count("output_lines_checked", int64(st.Lines))
	sigs[order] = struct{}{}
	shapes[sc.Kind+"|"+strings.Join(sc.Actions, ";")] = struct{}{}
	for _, is := range issues {
		if strings.HasPrefix(is.Sig, "HARNESS:") {
			r.HarnessError("scenario %v: %s %s", sc.Actions, is.Sig, is.Detail)
			return false
		}
		var tr []string
		for _, e := range tail(evs, 40) {
			d := "<"
			if e.Send {
				d = ">"
			}
			tr = append(tr, d+" "+e.Text[:min(len(e.Text), 70)])
		}
		r.Violation("C13:"+is.Sig+":"+sc.Kind, witness{Kind: "scenario", Scenario: sc, Trace: tail(evs, 60)},
			fmt.Sprintf("%s\nactions: %v\ntrace tail (> sent, < received):\n  %s", is.Detail, sc.Actions, strings.Join(tr, "\n  ")))
	}
	return len(issues) == 0
}

// sweep builds the systematic scenarios: for each in-search command every progress point at which
// it can be injected x follow-up command x output back-pressure.
func sweep() []*Scenario {
	var out []*Scenario
	cmds := []string{"none", "stop", "isready", "isready3", "ponderhit", "quit", "eof"}
	follows := []string{"", "isready", "go"}
	gos := []string{"go infinite", "go movetime 30", "go ponder wtime 500 btime 500"}
	for nInfo := 0; nInfo <= 3; nInfo++ {
		for gi, g := range gos {
			for _, cmd := range cmds {
				for inj := 0; inj <= nInfo+1; inj++ { // inj == nInfo+1: the command races with the search returning
					for _, fol := range follows {
						for bpi, bp := range []bool{false, true, false, true} {
							// bpi >= 2: the same shape with a mock that does not poll PonderHit after its last
							// progress point (as the real search, whose last poll precedes its last output and
							// its return) - only for ponderhit injected into a ponder search
							ntp := bpi >= 2
							if ntp && !(cmd == "ponderhit" && strings.Contains(g, "ponder")) {
								continue
							}
							if (nInfo+gi+inj)%2 == 1 && bp && fol == "isready" {
								continue // thin out
							}
							sc := &Scenario{Kind: "sweep", NInfo: nInfo, NoTailPoll: ntp}
							a := func(s ...string) { sc.Actions = append(sc.Actions, s...) }
							if strings.Contains(g, "ponder") {
								a("send setoption name Ponder value true")
							}
							a("send isready", "send position startpos", "send "+g, "wait")
							for i := 0; i < inj; i++ {
								a("step")
							}
							if bp {
								a("stall")
							}
							ended := false
							switch cmd {
							case "none":
							case "isready3":
								a("send isready", "send isready", "send isready")
							case "eof":
								a("eof")
								ended = true
							case "quit":
								a("send quit")
								ended = true
							default:
								a("send " + cmd)
							}
							a("wait")
							if bp {
								a("resume", "wait")
							}
							if !ended {
								for i := inj; i <= nInfo; i++ {
									a("step")
								}
								a("bestmove?")
								switch fol {
								case "isready":
									a("send isready", "wait")
								case "go":
									a("send position startpos moves e2e4", "send go depth 3", "wait")
									for i := 0; i <= nInfo; i++ {
										a("step")
									}
									a("bestmove?")
								}
							}
							sc.EOF = (nInfo+inj)%2 == 0
							out = append(out, sc)
						}
					}
				}
			}
		}
	}
	return out
}

// holds builds the hold scenarios: the interrupt goroutine is parked at the hook after k processed
// lines, the search finishes meanwhile, then the GUI does what a conforming GUI may do.
func holds() []*Scenario {
	var out []*Scenario
	for nInfo := 0; nInfo <= 2; nInfo++ {
		for k := 1; k <= 3; k++ {
			for _, g := range []string{"go infinite", "go depth 4", "go movetime 25"} {
				sc := &Scenario{Kind: "hold", NInfo: nInfo}
				a := func(s ...string) { sc.Actions = append(sc.Actions, s...) }
				a("send position startpos", "send "+g, "wait")
				a(fmt.Sprintf("park %d", k))
				for i := 1; i < k; i++ {
					a("send isready", "wait") // each processed line is one more pass of the loop
				}
				a("send isready", "wait")
				for i := 0; i <= nInfo; i++ {
					a("step")
				}
				a("wait", "holdattack", "bestmove?", "send isready", "wait")
				out = append(out, sc)
			}
		}
	}
	return out
}

func TestCheck(t *testing.T) {
	r := ev.Start("C13")
	if r.Replay != "" {
		replay(t, r)
		r.Finish()
		return
	}
	sigs := map[string]struct{}{}
	shapes := map[string]struct{}{}
	ok := true
	if r.Stage != "real" {
		// Workload A: virtual time, controllable mock search (bubbles run one after the other: the
		// scheduling hook is a package-level variable)
		sw := sweep()
		for i, sc := range sw {
			if !judgeScenario(t, r, sc, sigs, shapes) {
				ok = false
			}
			if i%400 == 0 {
				r.Sample(map[string]any{"kind": "sweep", "mock_info_lines": sc.NInfo, "actions": sc.Actions})
			}
			if r.Violations() >= ev.MaxViolations {
				break
			}
		}
		reps := r.N(40, 200)
		hs := holds()
		for rep := 0; rep < reps && r.Violations() < ev.MaxViolations; rep++ {
			for i, sc := range hs {
				judgeScenario(t, r, sc, sigs, shapes)
				if rep == 0 && i%9 == 0 {
					r.Sample(map[string]any{"kind": "hold", "mock_info_lines": sc.NInfo, "actions": sc.Actions})
				}
			}
		}
		n := r.N(6000, 150000)
		if r.Stage == "plain" {
			n = r.N(20000, 600000)
		}
		for i := 0; i < n && r.Violations() < ev.MaxViolations; i++ {
			sc := randomScenario(r.RNG("c13-random", i))
			judgeScenario(t, r, sc, sigs, shapes)
			if i%1500 == 0 {
				r.Sample(map[string]any{"kind": "random", "mock_info_lines": sc.NInfo, "actions": sc.Actions})
			}
		}
		_ = ok
		r.Count("distinct_schedules", int64(len(shapes)))
		r.Count("distinct_observed_event_order_signatures", int64(len(sigs)))
		for s := range shapes {
			r.DistinctStr(s)
		}
	}
	if r.Stage == "real" || r.Stage == "race" {
		realWorkload(r)
	}
	floors := []string{"go_commands", "bestmove_lines", "isready_commands", "readyok_lines", "output_lines_checked"}
	if r.Stage != "real" {
		floors = append(floors, "scenarios_sweep", "scenarios_hold", "scenarios_random", "mock_info_lines_crc_checked", "distinct_observed_event_order_signatures")
	}
	if r.Stage == "real" || r.Stage == "race" {
		floors = append(floors, "real_sessions", "real_info_lines", "real_sessions_with_slow_consumer")
	}
	r.Finish(floors...)
}

func replay(t *testing.T, r *ev.Run) {
	var w witness
	if err := ev.ReadReplay(r.Replay, &w); err != nil {
		t.Fatal(err)
	}
	if w.Scenario != nil {
		// the outcome of some schedules depends on the runtime's random select: repeat
		for i := 0; i < 40; i++ {
			if !judgeScenario(t, r, w.Scenario, map[string]struct{}{}, map[string]struct{}{}) {
				break
			}
		}
		return
	}
	if w.Real != nil {
		realSession(r, ev.NewLocal(), 0, w.Real)
	}
}
