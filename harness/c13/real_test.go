package c13

import (
	"bufio"
	"fmt"
	"io"
	"math/rand/v2"
	"os"
	"strconv"
	"strings"
	"sync"
	"time"

	"github.com/paulsonkoly/chess-3/uci"

	"verif/harness/ev"
)

// realStep is one step of a real-time script.
type realStep struct {
	DelayUs int    `json:"delay_us"`        // pause before sending (real time only chooses the moment)
	Cmd     string `json:"cmd,omitempty"`   // command to send ("" = none, "EOF" = close stdin)
	Await   string `json:"await,omitempty"` // "bestmove": wait until every go sent so far is answered
}

// realCase is a replayable real-time session script.
type realCase struct {
	Steps []realStep `json:"steps"`
	// SlowUs > 0: the consumer pauses that long after every SlowEvery-th line, so that the 4-slot
	// output channel fills up and writers (search, interrupt goroutine, handler) queue behind it.
	SlowUs    int `json:"slow_consumer_us,omitempty"`
	SlowEvery int `json:"slow_consumer_every,omitempty"`
}

type live struct {
	tr   Trace
	in   *io.PipeWriter
	mu   sync.Mutex
	cond *sync.Cond
	best int
	last time.Time // arrival of the most recent output line
	done chan struct{}
	read chan struct{} // closed when the consumer has seen the end of the output
}

func startLive(slowUs, slowEvery int) *live {
	pr, pw := io.Pipe()
	or, ow := io.Pipe()
	l := &live{in: pw, done: make(chan struct{}), read: make(chan struct{}), last: time.Now()}
	l.cond = sync.NewCond(&l.mu)
	d := uci.NewDriver(uci.WithInput(pr), uci.WithOutput(ow), uci.WithError(io.Discard))
	go func() { d.Run(); ow.Close(); close(l.done) }()
	go func() {
		sc := bufio.NewScanner(or)
		sc.Buffer(make([]byte, 1<<16), 1<<20)
		n := 0
		for sc.Scan() {
			line := sc.Text()
			if n++; slowUs > 0 && n%max(slowEvery, 1) == 0 {
				time.Sleep(time.Duration(slowUs) * time.Microsecond)
			}
			l.tr.add(false, line)
			l.mu.Lock()
			if strings.HasPrefix(line, "bestmove") {
				l.best++
			}
			l.last = time.Now()
			l.cond.Broadcast()
			l.mu.Unlock()
		}
		close(l.read)
	}()
	return l
}

func (l *live) send(cmd string) {
	l.tr.add(true, cmd)
	io.WriteString(l.in, cmd+"\n")
}

// awaitBest waits until n bestmove lines have arrived; watchdog only.
func (l *live) awaitBest(n int, timeout time.Duration) bool {
	deadline := time.Now().Add(timeout)
	t := time.AfterFunc(timeout+time.Second, func() { l.mu.Lock(); l.cond.Broadcast(); l.mu.Unlock() })
	defer t.Stop()
	l.mu.Lock()
	defer l.mu.Unlock()
	for l.best < n {
		if time.Now().After(deadline) {
			return false
		}
		l.cond.Wait()
	}
	return true
}

func watchdog() time.Duration {
	s := 1.0
	if v, err := strconv.ParseFloat(os.Getenv("VERIF_TIMEOUT_SCALE"), 64); err == nil && v > 0 {
		s = v
	}
	return time.Duration(float64(90*time.Second) * s)
}

var openings = []string{"", " moves e2e4", " moves e2e4 e7e5 g1f3", " moves d2d4 d7d5 c2c4 e7e6 b1c3", " moves e2e4 c7c5 g1f3 d7d6 d2d4 c5d4 f3d4"}

func randDelay(rng *rand.Rand) int {
	return []int{0, 0, 1, 3, 10, 30, 100, 300, 1000, 3000, 10000, 50000}[rng.IntN(12)]
}

// randomReal generates a conforming real-time script.
func randomReal(rng *rand.Rand) *realCase {
	c := &realCase{}
	if rng.IntN(3) == 0 {
		c.SlowUs, c.SlowEvery = []int{50, 200, 1000, 3000}[rng.IntN(4)], 1+rng.IntN(4)
	}
	add := func(d int, cmd, await string) { c.Steps = append(c.Steps, realStep{d, cmd, await}) }
	ponder := rng.IntN(3) == 0
	add(0, "uci", "")
	if ponder {
		add(0, "setoption name Ponder value true", "")
	}
	add(0, "isready", "")
	rounds := 2 + rng.IntN(5)
	for k := 0; k < rounds; k++ {
		if rng.IntN(4) == 0 {
			add(0, "ucinewgame", "")
		}
		add(0, "position startpos"+openings[rng.IntN(len(openings))], "")
		var g string
		needStop := false
		switch rng.IntN(7) {
		case 0:
			g = fmt.Sprintf("go nodes %d", 200+rng.IntN(30000))
		case 1:
			g = fmt.Sprintf("go depth %d", 1+rng.IntN(8))
		case 2:
			g = fmt.Sprintf("go movetime %d", 1+rng.IntN(40))
		case 3:
			g = fmt.Sprintf("go wtime %d btime %d winc %d binc %d", 50+rng.IntN(2000), 50+rng.IntN(2000), rng.IntN(30), rng.IntN(30))
		case 4:
			g, needStop = "go infinite", true
		case 5:
			if ponder {
				// while pondering every limit is ignored: only ponderhit or stop ends it
				switch rng.IntN(4) {
				case 0:
					g = fmt.Sprintf("go ponder wtime %d btime %d", 100+rng.IntN(1500), 100+rng.IntN(1500))
				case 1:
					g = fmt.Sprintf("go ponder nodes %d", 1+rng.IntN(5000))
				case 2:
					g = fmt.Sprintf("go ponder depth %d", 1+rng.IntN(6))
				default:
					g = fmt.Sprintf("go ponder movetime %d", 1+rng.IntN(30))
				}
				needStop = true
			} else {
				g = fmt.Sprintf("go nodes %d", 1+rng.IntN(500))
			}
		default:
			g = fmt.Sprintf("go nodes %d depth %d", 1000+rng.IntN(100000), 2+rng.IntN(10))
		}
		add(randDelay(rng), g, "")
		// in-search commands
		n := rng.IntN(5)
		ended := false
		for i := 0; i < n && !ended; i++ {
			switch x := rng.IntN(12); {
			case x < 6:
				add(randDelay(rng), "isready", "")
			case x < 8:
				add(randDelay(rng), "stop", "")
				needStop = false
				ended = true
			case x < 9 && strings.Contains(g, "ponder"):
				add(randDelay(rng), "ponderhit", "")
				needStop = false // the clock of the ponder search now bounds it
			case x < 10 && k == rounds-1:
				if rng.IntN(2) == 0 {
					add(randDelay(rng), "quit", "")
				} else {
					add(randDelay(rng), "EOF", "")
				}
				return c
			default:
				for j := 1 + rng.IntN(5); j > 0; j-- {
					add(0, "isready", "")
				}
			}
		}
		if needStop {
			add(randDelay(rng), "stop", "")
		}
		add(0, "", "bestmove")
		if rng.IntN(3) == 0 {
			add(0, "isready", "")
		}
	}
	if rng.IntN(2) == 0 {
		add(0, "quit", "")
	} else {
		add(0, "EOF", "")
	}
	return c
}

func realSession(r *ev.Run, lc *ev.Local, wk int, c *realCase) {
	r.Current(wk, c)
	l := startLive(c.SlowUs, c.SlowEvery)
	if c.SlowUs > 0 {
		lc.C["real_sessions_with_slow_consumer"]++
	}
	gos := 0
	closed := false
	stopAt := time.Time{}
	inconclusive := ""
	wd := watchdog()
	for _, st := range c.Steps {
		if st.DelayUs > 0 {
			time.Sleep(time.Duration(st.DelayUs) * time.Microsecond)
		}
		switch {
		case st.Cmd == "EOF":
			l.in.Close()
			closed = true
		case st.Cmd != "":
			if strings.HasPrefix(st.Cmd, "go") {
				gos++
			}
			if st.Cmd == "stop" {
				stopAt = time.Now()
			}
			l.send(st.Cmd)
			if st.Cmd == "quit" {
				l.in.Close()
				closed = true
			}
		}
		if st.Await == "bestmove" {
			if !l.awaitBest(gos, wd) {
				// bounded progress: was the search told to stop, and does it keep reporting?
				l.mu.Lock()
				quiet := time.Since(l.last)
				l.mu.Unlock()
				if !stopAt.IsZero() {
					r.Violation("C13:no-bestmove-after-stop:real", witness{Kind: "real", Real: c, Trace: tail(l.tr.Snapshot(), 40)},
						fmt.Sprintf("stop was sent %v ago, %d go sent, %d bestmove received, last output line %v ago: the search was not stopped", time.Since(stopAt).Round(time.Second), gos, l.best, quiet.Round(time.Second)))
				} else {
					inconclusive = fmt.Sprintf("bounded search did not answer within the %v watchdog", wd)
				}
				break
			}
			stopAt = time.Time{}
		}
	}
	if !closed {
		l.send("quit")
		l.in.Close()
	}
	finished := false
	select {
	case <-l.done:
		finished = true
		<-l.read // everything the driver wrote has been logged
	case <-time.After(wd):
		if inconclusive == "" {
			r.Violation("C13:driver-does-not-terminate-after-quit-or-eof:real", witness{Kind: "real", Real: c, Trace: tail(l.tr.Snapshot(), 40)},
				fmt.Sprintf("quit / end of input was sent %v ago and Run has not returned (%d go sent, %d bestmove received)", wd, gos, l.best))
		}
	}
	if inconclusive != "" {
		r.Inconclusive(inconclusive)
	}
	evs := l.tr.Snapshot()
	issues, stt := Check(evs, finished)
	r.Eval(1)
	lc.C["real_sessions"]++
	lc.C["go_commands"] += int64(stt.Gos)
	lc.C["bestmove_lines"] += int64(stt.Bestmoves)
	lc.C["isready_commands"] += int64(stt.Isready)
	lc.C["readyok_lines"] += int64(stt.Readyok)
	lc.C["real_info_lines"] += int64(stt.RealInfos)
	lc.C["output_lines_checked"] += int64(stt.Lines)
	for _, is := range issues {
		if strings.HasPrefix(is.Sig, "HARNESS:") {
			r.HarnessError("real script: %s %s", is.Sig, is.Detail)
			return
		}
		var tr []string
		for _, e := range tail(evs, 30) {
			d := "<"
			if e.Send {
				d = ">"
			}
			tr = append(tr, d+" "+e.Text[:min(len(e.Text), 90)])
		}
		r.Violation("C13:"+is.Sig+":real", witness{Kind: "real", Real: c, Trace: tail(evs, 60)}, is.Detail+"\ntrace tail:\n  "+strings.Join(tr, "\n  "))
	}
}

// realWorkload: 16 drivers in parallel with the real search in real time.
func realWorkload(r *ev.Run) {
	n := r.N(320, 6400)
	if r.Stage == "race" {
		n = r.N(96, 1600)
	}
	nw := ev.Workers()
	lcs := make([]*ev.Local, nw)
	for i := range lcs {
		lcs[i] = ev.NewLocal()
	}
	ev.Parallel(n, func(wk, i int) {
		if r.Violations() >= ev.MaxViolations {
			return // enough witnesses; every further failing session would wait for the watchdog
		}
		c := randomReal(r.RNG("c13-real", i))
		realSession(r, lcs[wk], wk, c)
		r.Distinct(uint64(1)<<50 | uint64(i))
		if i%64 == 0 {
			r.Sample(map[string]any{"kind": "real-time-script", "steps": c.Steps[:min(len(c.Steps), 14)]})
		}
		r.Merge(lcs[wk])
	})
}
