// Package fuzz is a seeded, structure-aware mutational generator of FEN-like byte strings.
package fuzz

import (
	"math/rand/v2"
	"strings"
)

var alphabet = []byte("pnbrqkPNBRQK12345678/ wb-KQkqabcdefgh0123456789\x00\xff\t ;.+xX9")

// Mutate derives a hostile input from a valid FEN.
func Mutate(rng *rand.Rand, fen string) []byte {
	b := []byte(fen)
	switch rng.IntN(16) {
	case 0: // truncate at a random byte
		return b[:rng.IntN(len(b)+1)]
	case 1: // single byte substitution over the whole byte range
		if len(b) > 0 {
			b[rng.IntN(len(b))] = byte(rng.IntN(256))
		}
		return b
	case 2: // single byte substitution from the FEN alphabet
		if len(b) > 0 {
			b[rng.IntN(len(b))] = alphabet[rng.IntN(len(alphabet))]
		}
		return b
	case 3: // drop a field
		f := strings.Fields(fen)
		i := rng.IntN(len(f))
		f = append(f[:i:i], f[i+1:]...)
		return []byte(strings.Join(f, " "))
	case 4: // duplicate a field
		f := strings.Fields(fen)
		i := rng.IntN(len(f))
		f = append(f[:i+1], f[i:]...)
		return []byte(strings.Join(f, " "))
	case 5: // swap two fields
		f := strings.Fields(fen)
		i, j := rng.IntN(len(f)), rng.IntN(len(f))
		f[i], f[j] = f[j], f[i]
		return []byte(strings.Join(f, " "))
	case 6: // numeric overflow in a counter
		f := strings.Fields(fen)
		i := 4 + rng.IntN(2)
		if i < len(f) {
			f[i] = strings.Repeat("9", 1+rng.IntN(40))
			if rng.IntN(3) == 0 {
				f[i] = "-" + f[i]
			}
		}
		return []byte(strings.Join(f, " "))
	case 7: // rank that does not sum to 8 / too many ranks
		f := strings.Fields(fen)
		ranks := strings.Split(f[0], "/")
		switch rng.IntN(4) {
		case 0:
			ranks = append(ranks, ranks[rng.IntN(len(ranks))])
		case 1:
			ranks[rng.IntN(len(ranks))] += string("pP12345678qK"[rng.IntN(12)])
		case 2:
			for k := 0; k < 1+rng.IntN(12); k++ {
				ranks = append(ranks, "8")
			}
		default:
			ranks[rng.IntN(len(ranks))] = strings.Repeat("8", 1+rng.IntN(30))
		}
		f[0] = strings.Join(ranks, "/")
		return []byte(strings.Join(f, " "))
	case 8: // insert random bytes
		i := rng.IntN(len(b) + 1)
		n := 1 + rng.IntN(4)
		ins := make([]byte, n)
		for k := range ins {
			ins[k] = alphabet[rng.IntN(len(alphabet))]
		}
		return append(b[:i:i], append(ins, b[i:]...)...)
	case 9: // delete a span
		if len(b) > 1 {
			i := rng.IntN(len(b))
			j := min(len(b), i+1+rng.IntN(6))
			return append(b[:i:i], b[j:]...)
		}
		return b
	case 10: // very long input
		return []byte(strings.Repeat(fen+" ", 1+rng.IntN(40)))
	case 11: // long placement without separators
		n := 1 + rng.IntN(3000)
		out := make([]byte, n)
		for k := range out {
			out[k] = "pnbrqkPNBRQK12345678/"[rng.IntN(21)]
		}
		return append(out, []byte(" w - - 0 1")...)
	case 12: // whitespace games
		s := strings.ReplaceAll(fen, " ", strings.Repeat(" ", 1+rng.IntN(4)))
		if rng.IntN(2) == 0 {
			s = " " + s
		}
		if rng.IntN(2) == 0 {
			s += " "
		}
		if rng.IntN(4) == 0 {
			s = strings.ReplaceAll(s, " ", "\t")
		}
		return []byte(s)
	case 13: // e.p. field games
		f := strings.Fields(fen)
		if len(f) > 3 {
			f[3] = []string{"a", "h", "i3", "a9", "e", "e3e", "-e3", "a0", "h8", "a1", "\xff\xff", ""}[rng.IntN(12)]
		}
		return []byte(strings.Join(f, " "))
	case 14: // pure random bytes
		n := rng.IntN(100)
		out := make([]byte, n)
		for k := range out {
			out[k] = byte(rng.IntN(256))
		}
		return out
	default: // random bytes from the alphabet
		n := rng.IntN(120)
		out := make([]byte, n)
		for k := range out {
			out[k] = alphabet[rng.IntN(len(alphabet))]
		}
		return out
	}
}

// Stack applies 1-3 mutations in sequence.
func Stack(rng *rand.Rand, fen string) []byte {
	b := Mutate(rng, fen)
	for k := rng.IntN(3); k > 0; k-- {
		if len(b) < 8 || len(strings.Fields(string(b))) < 2 {
			break
		}
		b = Mutate(rng, string(b))
	}
	return b
}
