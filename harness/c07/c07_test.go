package c07

import (
	"fmt"
	"strings"
	"testing"
	"time"

	"github.com/paulsonkoly/chess-3/move"
	"github.com/paulsonkoly/chess-3/search"

	"verif/harness/conv"
	"verif/harness/eng"
	"verif/harness/ev"
	"verif/harness/gen"
	"verif/harness/ref"
	"verif/harness/strace"
)

type gameWitness struct {
	Kind     string           `json:"kind"`
	Start    string           `json:"start_fen"`
	TTBytes  int              `json:"tt_bytes"`
	Requests []strace.Request `json:"requests_per_move"`
	Moves    []string         `json:"moves_played"`
}

type uciWitness struct {
	Kind  string   `json:"kind"`
	Start string   `json:"start_fen"`
	Moves []string `json:"moves"`
	Go    string   `json:"go_command"`
}

func judge(r *ev.Run) strace.Judge {
	return func(c *strace.Case, root *strace.Root, q strace.Request, res *strace.Result, same bool, diff string) {
		if q.NoOutput {
			return
		}
		issues, stats := strace.CheckC07(root, res)
		for _, is := range issues {
			r.Violation("C07:"+is.Sig+":"+c.Kind, c, fmt.Sprintf("root %s request %+v: %s\ntrace:\n  %s", root.Pos.FEN(), q, is.Detail, strings.Join(res.Lines, "\n  ")))
		}
		for k, v := range stats {
			if k == "longest_pv" {
				r.MaxCount(k, int64(v))
			} else {
				r.Count(k, int64(v))
			}
		}
		r.Count("traces_checked", 1)
	}
}

// game plays a whole game on one engine without Clear: tables warmed by the preceding searches.
func game(r *ev.Run, wk int, w *gameWitness, verbose bool) {
	start := ref.MustFEN(w.Start)
	s := search.New(w.TTBytes)
	var ms []ref.Move
	jd := judge(r)
	for i, q := range w.Requests {
		root := strace.NewRoot(start, ms)
		if root.Final() {
			break
		}
		b, err := root.Board()
		if err != nil {
			return
		}
		wc := *w
		wc.Requests = w.Requests[:i+1]
		wc.Moves = root.MoveNames()
		r.Current(wk, wc)
		res := strace.Exec(s, b, q)
		r.Eval(1)
		if verbose {
			fmt.Printf("move %d %+v -> %v ponder %v\n  %s\n", i, q, res.Move, res.Ponder, strings.Join(res.Lines, "\n  "))
		}
		c := &strace.Case{Kind: "game-warm-table", RootKind: "game", Start: w.Start, Moves: root.MoveNames(), TTBytes: w.TTBytes}
		before := r.Violations()
		jd(c, &root, q, &res, true, "")
		if r.Violations() > before {
			// re-record with the full game witness so that the replay warms the table the same way
			r.Violation("C07:violation-in-warm-table-game(see previous)", wc, "game witness for the preceding violation: replays the whole game on one engine")
			return
		}
		r.Count("game_searches_on_warm_tables", 1)
		var next ref.Move
		for _, m := range root.Pos.Legal() {
			if conv.M(m) == res.Move {
				next = m
			}
		}
		if next == 0 {
			return // C06's business
		}
		ms = append(ms, next)
	}
}

func TestCheck(t *testing.T) {
	r := ev.Start("C07")
	if err := ref.SelfTest(); err != nil {
		r.HarnessError("%v", err)
		r.Finish()
		t.Fatal(err)
	}
	if r.Replay != "" {
		replay(t, r)
		r.Finish()
		return
	}
	c := &strace.Campaign{R: r, Stream: "c07", Judge: judge(r), Roots: r.N(120, 900), Sweeps: r.N(110, 600), SweepK: r.N(400, 4000), Deep: r.N(32, 320), DeepNodes: r.N(12_000_000, 30_000_000)}
	c.Go()
	// games: fresh / warmed / heavily colliding 32000-byte table (1000 buckets)
	corpus := gen.Corpus()
	games := r.N(320, 3200)
	ev.Parallel(games, func(wk, i int) {
		rng := r.RNG("c07-game", i)
		p := corpus[rng.IntN(len(corpus))]
		if rng.IntN(3) == 0 {
			p = gen.AnyPos(rng)
		}
		p.Half %= 60
		w := &gameWitness{Kind: "game", Start: p.FEN(), TTBytes: []int{32000, 32000, 1 << 20, 8 << 20}[rng.IntN(4)]}
		n := 10 + rng.IntN(30)
		for k := 0; k < n; k++ {
			q := strace.Request{Nodes: -1}
			switch rng.IntN(4) {
			case 0:
				q.Depth = 1 + rng.IntN(7)
				q.Nodes = 80000
			case 1:
				q.Nodes = 200 + rng.IntN(20000)
			default:
				q.SoftNodes = 500 + rng.IntN(15000)
				q.Nodes = 400000
			}
			w.Requests = append(w.Requests, q)
		}
		game(r, wk, w, false)
		r.DistinctStr("game" + p.Key() + fmt.Sprint(i))
		if i%24 == 0 {
			r.Sample(map[string]any{"kind": "game-warm-table", "start": p.FEN(), "tt_bytes": w.TTBytes, "searches": len(w.Requests)})
		}
	})
	// UCI path with Ponder=true: info / bestmove ... ponder ... lines of the real driver
	nu := r.N(1200, 12000)
	ev.Parallel(nu, func(wk, i int) {
		rng := r.RNG("c07-uci", i)
		root, _ := strace.RandomRoot(rng, strace.RootKinds[i%len(strace.RootKinds)])
		if root.Start.Half > 100 {
			return
		}
		var g string
		switch rng.IntN(3) {
		case 0:
			g = fmt.Sprintf("go depth %d nodes 60000", 1+rng.IntN(7))
		case 1:
			g = fmt.Sprintf("go nodes %d", 100+rng.IntN(20000))
		default:
			g = fmt.Sprintf("go movetime %d nodes 40000", 1+rng.IntN(15))
		}
		w := uciWitness{Kind: "uci", Start: root.Start.FEN(), Moves: root.MoveNames(), Go: g}
		r.Current(wk, w)
		uciCase(r, &root, w)
	})
	r.Finish("deep_or_wide_searches", "searches_on_poisoned_table", "engines_warmed_up_on_another_root", "abort_sweep_sparse_deep_points", "traces_checked", "pv_lines", "pv_moves", "abort_lines", "empty_pv_lines", "ponder_moves", "game_searches_on_warm_tables", "uci_traces_checked", "uci_ponder_moves")
}

func uciCase(r *ev.Run, root *strace.Root, w uciWitness) {
	s := eng.NewSession()
	s.Send("setoption name Ponder value true")
	cmd := "position fen " + w.Start
	if len(w.Moves) > 0 {
		cmd += " moves " + strings.Join(w.Moves, " ")
	}
	s.Send(cmd)
	s.Send(w.Go)
	lines, ok := s.Until("bestmove", 180*time.Second)
	closed := s.Close(60 * time.Second)
	r.Eval(1)
	if !ok || !closed {
		r.Inconclusive(fmt.Sprintf("uci %q: no bestmove / no termination before the watchdog", w.Go))
		return
	}
	bl := strings.Fields(lines[len(lines)-1])
	res := strace.Result{Lines: lines[:len(lines)-1]}
	res.Infos, res.Bad = strace.ParseInfos(res.Lines)
	parse := func(s string) move.Move {
		if s == "0000" {
			return 0
		}
		for _, m := range root.Pos.Legal() {
			if m.String() == s {
				return conv.M(m)
			}
		}
		return move.Move(0x7fff) // not a legal root move: C06 judges that, here it only must equal the pv head
	}
	if len(bl) >= 2 {
		res.Move = parse(bl[1])
	}
	ponderTxt := ""
	if len(bl) == 4 && bl[2] == "ponder" {
		ponderTxt = bl[3]
	} else if len(bl) != 2 {
		r.Violation("C07:uci-bestmove-line-malformed", w, lines[len(lines)-1])
		return
	}
	issues, stats := strace.CheckC07(root, &res)
	// the driver prints the move text; compare texts for the head-of-pv clause
	var filtered []strace.Issue
	for _, is := range issues {
		if is.Sig == "returned-move-differs-from-last-pv" || is.Sig == "fallback-move-not-legal" {
			continue
		}
		filtered = append(filtered, is)
	}
	var lastPV []string
	for _, in := range res.Infos {
		if !in.Abort && len(in.PV) > 0 {
			lastPV = in.PV
		}
	}
	if lastPV != nil && len(bl) >= 2 && bl[1] != lastPV[0] {
		filtered = append(filtered, strace.Issue{Sig: "returned-move-differs-from-last-pv", Detail: fmt.Sprintf("bestmove %s, most recent non-empty pv %v", bl[1], lastPV)})
	}
	if ponderTxt != "" {
		r.Count("uci_ponder_moves", 1)
		ok := false
		for _, m := range root.Pos.Legal() {
			if m.String() == bl[1] {
				nx := root.Pos.Make(m)
				nx = nx.Normalised()
				for _, m2 := range nx.Legal() {
					if m2.String() == ponderTxt {
						ok = true
					}
				}
			}
		}
		if !ok {
			filtered = append(filtered, strace.Issue{Sig: "ponder-move-not-legal", Detail: fmt.Sprintf("%q in %s", lines[len(lines)-1], root.Pos.FEN())})
		}
	}
	for _, is := range filtered {
		r.Violation("C07:"+is.Sig+":uci", w, fmt.Sprintf("root %s %s: %s\noutput:\n  %s", root.Pos.FEN(), w.Go, is.Detail, strings.Join(lines, "\n  ")))
	}
	r.Count("uci_traces_checked", 1)
	r.Count("uci_pv_lines", int64(stats["pv_lines"]))
}

func replay(t *testing.T, r *ev.Run) {
	var probe struct {
		Kind string `json:"kind"`
	}
	if err := ev.ReadReplay(r.Replay, &probe); err != nil {
		t.Fatal(err)
	}
	switch probe.Kind {
	case "uci":
		var w uciWitness
		ev.ReadReplay(r.Replay, &w)
		start := ref.MustFEN(w.Start)
		cur := start
		var ms []ref.Move
		for _, name := range w.Moves {
			for _, m := range cur.Legal() {
				if m.String() == name {
					ms = append(ms, m)
					cur = cur.Make(m)
					cur = cur.Normalised()
					break
				}
			}
		}
		root := strace.NewRoot(start, ms)
		uciCase(r, &root, w)
	case "game":
		var w gameWitness
		ev.ReadReplay(r.Replay, &w)
		game(r, 0, &w, true)
	default:
		var c strace.Case
		if err := ev.ReadReplay(r.Replay, &c); err != nil {
			t.Fatal(err)
		}
		strace.Replay(&c, judge(r))
	}
}
