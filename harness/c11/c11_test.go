package c11

import (
	"bytes"
	"fmt"
	"math/rand/v2"
	"strings"
	"testing"

	"github.com/paulsonkoly/chess-3/board"
	"github.com/paulsonkoly/chess-3/chess"
	"github.com/paulsonkoly/chess-3/uci"

	"verif/harness/ev"
	"verif/harness/fuzz"
	"verif/harness/gen"
	"verif/harness/ref"
)

type witness struct {
	Kind  string `json:"kind"`
	FEN   string `json:"fen,omitempty"`
	Input string `json:"input_hex,omitempty"`
	Prev  string `json:"previous_fen,omitempty"`
}

// sameAsRef compares every attribute of the engine board with the reference position.
func sameAsRef(b *board.Board, p *ref.Pos) string {
	s := b.VerifSnapshot()
	for sq := 0; sq < 64; sq++ {
		v := p.Sq[sq]
		pc, white := v, true
		if v < 0 {
			pc, white = -v, false
		}
		if int8(s.SquaresToPiece[sq]) != pc {
			return fmt.Sprintf("piece on square %d", sq)
		}
		if v != 0 {
			bit := chess.BitBoard(1) << sq
			if (s.Colors[chess.White]&bit != 0) != white || (s.Colors[chess.Black]&bit != 0) == white {
				return fmt.Sprintf("colour on square %d", sq)
			}
			if s.Pieces[pc]&bit == 0 {
				return fmt.Sprintf("piece set on square %d", sq)
			}
		}
	}
	if (s.STM == chess.White) != p.White {
		return "side to move"
	}
	if uint8(s.Castles) != p.Castle {
		return "castling rights"
	}
	ep := int(s.EnPassant)
	if ep == 0 {
		ep = -1
	}
	if ep != p.EP {
		return "en-passant target"
	}
	if s.FiftyCnt != p.Half {
		return "halfmove clock"
	}
	if s.FullMoves != p.Full {
		return "fullmove number"
	}
	return ""
}

type worker struct {
	lc    *ev.Local
	reuse board.Board
}

func roundTrip(r *ev.Run, w *worker, p *ref.Pos, kind string) {
	fen := p.FEN()
	r.Eval(1)
	w.lc.C["round_trips"]++
	b, err := board.FromFEN(fen)
	if err != nil {
		r.Violation("C11:valid-fen-rejected", witness{Kind: kind, FEN: fen}, fmt.Sprintf("FromFEN(%q): %v", fen, err))
		return
	}
	if d := sameAsRef(b, p); d != "" {
		r.Violation("C11:parse-differs:"+strings.Fields(d)[0], witness{Kind: kind, FEN: fen}, fmt.Sprintf("FromFEN(%q) differs from the position in: %s", fen, d))
	}
	if got := b.FEN(); got != fen {
		r.Violation("C11:text-round-trip", witness{Kind: kind, FEN: fen}, fmt.Sprintf("FromFEN(T).FEN()=%q for canonical T=%q", got, fen))
	}
	if b.Hash() != b.VerifCalculateHash() || b.VerifHashLen() != 1 {
		r.Violation("C11:loaded-hash-history", witness{Kind: kind, FEN: fen}, "FromFEN did not leave exactly the position's hash in the history")
	}
	// allocation-free parser into a board that held another position before
	if err := board.ParseFEN(&w.reuse, []byte(fen)); err != nil {
		r.Violation("C11:valid-fen-rejected", witness{Kind: kind + "-reused", FEN: fen}, fmt.Sprintf("ParseFEN(%q): %v", fen, err))
	} else {
		w.lc.C["round_trips_into_reused_board"]++
		if d := sameAsRef(&w.reuse, p); d != "" && !strings.HasPrefix(d, "hash") {
			r.Violation("C11:parse-into-reused-board-differs:"+strings.Fields(d)[0], witness{Kind: kind + "-reused", FEN: fen}, fmt.Sprintf("ParseFEN(%q) into a used board differs in: %s", fen, d))
		}
		if got := w.reuse.FEN(); got != fen {
			r.Violation("C11:text-round-trip", witness{Kind: kind + "-reused", FEN: fen}, fmt.Sprintf("ParseFEN(T) into a used board prints %q for T=%q", got, fen))
		}
	}
	if b.InvalidPieceCount() {
		r.Violation("C11:piece-count-gate-rejects-reachable", witness{Kind: kind, FEN: fen}, "InvalidPieceCount() is true for a valid position")
	}
	if p.EP >= 0 {
		w.lc.C["with_ep_target"]++
	}
	prom := 0
	var cnt [13]int
	for _, v := range p.Sq {
		cnt[v+6]++
	}
	for _, sg := range []int{1, -1} {
		prom += max(0, cnt[6+sg*ref.N]-2) + max(0, cnt[6+sg*ref.B]-2) + max(0, cnt[6+sg*ref.R]-2) + max(0, cnt[6+sg*ref.Q]-1)
	}
	if prom > 0 {
		w.lc.C["with_promoted_material"]++
	}
	if prom >= 6 {
		w.lc.C["with_6_or_more_promoted_pieces"]++
	}
	r.DistinctStr(fen)
}

// promoted builds positions with up to 8 promoted pieces per side in every mix.
func promoted(rng *rand.Rand) (ref.Pos, bool) {
	var p ref.Pos
	p.EP = -1
	p.Full = 1 + rng.IntN(300)
	p.Half = rng.IntN(101)
	p.White = rng.IntN(2) == 0
	sq := rng.Perm(64)
	k := 0
	next := func() int { k++; return sq[k-1] }
	p.Sq[next()] = ref.K
	p.Sq[next()] = -ref.K
	for _, sg := range []int8{1, -1} {
		base := map[int8]int{ref.N: 2, ref.B: 2, ref.R: 2, ref.Q: 1}
		np := rng.IntN(9)
		extra := rng.IntN(8 - np + 1)
		if rng.IntN(2) == 0 {
			extra = 8 - np
		}
		for _, pc := range []int8{ref.N, ref.B, ref.R, ref.Q} {
			n := rng.IntN(base[pc] + 1)
			if rng.IntN(2) == 0 {
				n = base[pc]
			}
			for i := 0; i < n && k < 60; i++ {
				p.Sq[next()] = sg * pc
			}
		}
		for i := 0; i < extra && k < 60; i++ {
			p.Sq[next()] = sg * int8(2+rng.IntN(4))
		}
		for i := 0; i < np && k < 62; i++ {
			for try := 0; try < 20; try++ {
				s := next()
				if s/8 != 0 && s/8 != 7 {
					p.Sq[s] = sg * ref.P
					break
				}
				if k >= 62 {
					break
				}
			}
		}
	}
	return p, p.Valid()
}

func TestCheck(t *testing.T) {
	r := ev.Start("C11")
	if err := ref.SelfTest(); err != nil {
		r.HarnessError("%v", err)
		r.Finish()
		t.Fatal(err)
	}
	if r.Replay != "" {
		replay(t, r)
		r.Finish()
		return
	}
	nw := ev.Workers()
	ws := make([]*worker, nw)
	for i := range ws {
		ws[i] = &worker{lc: ev.NewLocal()}
	}
	mainStage := r.Stage == "main"
	// ---- round trips (main stage only; sanitizer stages run the robustness part)
	if mainStage {
		type src struct {
			name string
			f    func(*rand.Rand) (ref.Pos, bool)
			n    int
		}
		raw := func(rng *rand.Rand) (ref.Pos, bool) { // raw (not normalised) e.p. targets are canonical text too
			p, ok := gen.PrePush(rng)
			if !ok {
				return p, false
			}
			l := p.Legal()
			if len(l) == 0 {
				return p, false
			}
			q := p.Make(l[rng.IntN(len(l))])
			return q, q.Valid() && q.Half <= 100
		}
		const chunk = 500
		for _, s := range []src{{"dense", gen.Dense, r.N(100000, 2000000)}, {"sparse", gen.Sparse, r.N(60000, 1200000)}, {"adv", gen.Adv, r.N(60000, 1200000)},
			{"promoted", promoted, r.N(150000, 3000000)}, {"castle", gen.Castle, r.N(30000, 600000)}, {"raw-ep", raw, r.N(40000, 800000)}} {
			ev.Parallel(s.n/chunk, func(wk, i int) {
				w := ws[wk]
				rng := r.RNG("c11-"+s.name, i)
				for k := 0; k < chunk; k++ {
					p, ok := s.f(rng)
					if !ok {
						continue
					}
					roundTrip(r, w, &p, s.name)
					if k == 0 && i%60 == 0 {
						r.Sample(map[string]any{"kind": "round-trip", "source": s.name, "fen": p.FEN()})
					}
				}
				r.Merge(w.lc)
			})
		}
		// UCI: position fen T; fen  must echo T for every valid position
		nu := r.N(300, 3000)
		ev.Parallel(nu, func(wk, i int) {
			rng := r.RNG("c11-uci", i)
			var cmd strings.Builder
			var want []string
			for k := 0; k < 100; k++ {
				var p ref.Pos
				ok := false
				if k%2 == 0 {
					p, ok = promoted(rng)
				}
				if !ok {
					p = gen.AnyPos(rng)
				}
				p.Half %= 101
				cmd.WriteString("position fen " + p.FEN() + "\nfen\n")
				want = append(want, p.FEN())
			}
			cmd.WriteString("quit\n")
			var out, errb bytes.Buffer
			uci.NewDriver(uci.WithInput(strings.NewReader(cmd.String())), uci.WithOutput(&out), uci.WithError(&errb)).Run()
			lines := strings.Split(strings.TrimRight(out.String(), "\n"), "\n")
			for k, wv := range want {
				r.Eval(1)
				ws[wk].lc.C["uci_valid_positions"]++
				if k >= len(lines) || lines[k] != wv {
					got := "<missing>"
					if k < len(lines) {
						got = lines[k]
					}
					r.Violation("C11:uci-does-not-accept-valid-fen", witness{Kind: "uci-valid", FEN: wv}, fmt.Sprintf("position fen %s; fen printed %q; stderr %q", wv, got, errb.String()))
					break
				}
			}
			r.Merge(ws[wk].lc)
		})
	}
	// ---- robustness: arbitrary byte strings never crash the parsers / printer
	corpus := gen.Corpus()
	nf := r.N(2_000_000, 40_000_000)
	if !mainStage {
		nf = r.N(400_000, 8_000_000)
	}
	const fchunk = 2000
	ev.Parallel(nf/fchunk, func(wk, i int) {
		w := ws[wk]
		rng := r.RNG("c11-fuzz", i)
		for k := 0; k < fchunk; k++ {
			seed := corpus[rng.IntN(len(corpus))].FEN()
			in := fuzz.Stack(rng, seed)
			r.LogCase(wk, in)
			parseOne(r, w, in)
		}
		if i%100 == 0 {
			r.Sample(map[string]any{"kind": "fuzz-input", "input": fmt.Sprintf("%q", string(fuzz.Stack(rng, corpus[0].FEN())))})
		}
		r.Merge(w.lc)
	})
	// truncation at every byte and every single-byte substitution from a small alphabet, on a few seeds
	seeds := []string{corpus[0].FEN(), corpus[1].FEN(), "r3k2r/p1ppqpb1/bn2pnp1/3PN3/1p2P3/2N2Q1p/PPPBBPPP/R3K2R w KQkq - 0 1", "8/8/8/8/k2Pp2Q/8/8/3K4 b - d3 12 99"}
	sub := []byte("pK18/ wb-q a3h9\x00\xff\t:")
	ev.Parallel(len(seeds), func(wk, i int) {
		w := ws[wk]
		s := []byte(seeds[i])
		for cut := 0; cut <= len(s); cut++ {
			r.LogCase(wk, s[:cut])
			parseOne(r, w, s[:cut])
		}
		for pos := 0; pos < len(s); pos++ {
			for _, c := range sub {
				m := append([]byte(nil), s...)
				m[pos] = c
				r.LogCase(wk, m)
				parseOne(r, w, m)
			}
		}
		w.lc.C["systematic_truncations_and_substitutions"] += int64(len(s) + 1 + len(s)*len(sub))
		r.Merge(w.lc)
	})
	// ---- UCI: a rejected FEN never replaces the current position
	nj := r.N(400, 8000)
	ev.Parallel(nj, func(wk, i int) {
		w := ws[wk]
		rng := r.RNG("c11-ucijunk", i)
		uciJunk(r, w, rng, corpus)
		r.Merge(w.lc)
	})
	if mainStage {
		r.Finish("round_trips", "round_trips_into_reused_board", "with_ep_target", "with_promoted_material", "with_6_or_more_promoted_pieces", "uci_valid_positions",
			"fuzz_inputs", "fuzz_rejected", "fuzz_accepted", "uci_junk_commands", "uci_junk_rejected", "systematic_truncations_and_substitutions")
	} else {
		r.Finish("fuzz_inputs", "fuzz_rejected", "fuzz_accepted", "uci_junk_commands")
	}
}

// parseOne feeds one byte string to ParseFEN, FromFEN and, when accepted, FEN() and the
// piece-count gate; any panic is a violation (sanitizer reports kill the process and are
// attributed by the runner through the logged case file).
func parseOne(r *ev.Run, w *worker, in []byte) {
	defer func() {
		if x := recover(); x != nil {
			r.Violation("C11:panic-on-input", witness{Kind: "fuzz", Input: fmt.Sprintf("%x", in)}, fmt.Sprintf("input %q: panic: %v", string(in), x))
		}
	}()
	r.Eval(1)
	w.lc.C["fuzz_inputs"]++
	err := board.ParseFEN(&w.reuse, in)
	b, err2 := board.FromFEN(string(in))
	if (err == nil) != (err2 == nil) {
		r.Violation("C11:parsers-disagree", witness{Kind: "fuzz", Input: fmt.Sprintf("%x", in)}, fmt.Sprintf("input %q: ParseFEN err=%v, FromFEN err=%v", string(in), err, err2))
	}
	if err2 != nil {
		w.lc.C["fuzz_rejected"]++
		if b != nil {
			r.Violation("C11:error-and-position", witness{Kind: "fuzz", Input: fmt.Sprintf("%x", in)}, "FromFEN returned both an error and a board")
		}
		return
	}
	w.lc.C["fuzz_accepted"]++
	out := b.FEN()
	_ = b.InvalidPieceCount()
	_ = w.reuse.FEN()
	if b2, err := board.FromFEN(out); err != nil || b2.FEN() != out {
		w.lc.C["fuzz_accepted_but_print_not_reparsable_or_not_idempotent(informational)"]++
	}
}

func uciJunk(r *ev.Run, w *worker, rng *rand.Rand, corpus []ref.Pos) {
	var cmd strings.Builder
	type step struct {
		junk string
	}
	var steps []step
	prev := corpus[0].FEN()
	cmd.WriteString("position fen " + prev + "\nfen\n")
	n := 40
	for k := 0; k < n; k++ {
		var junk string
		if rng.IntN(6) == 0 {
			p := gen.AnyPos(rng)
			p.Half %= 101
			junk = p.FEN()
		} else {
			j := fuzz.Stack(rng, corpus[rng.IntN(len(corpus))].FEN())
			if len(j) > 3000 {
				j = j[:3000]
			}
			j = bytes.Map(func(c rune) rune {
				if c == '\n' || c == '\r' {
					return ' '
				}
				return c
			}, j)
			junk = string(j)
		}
		steps = append(steps, step{junk})
		cmd.WriteString("position fen " + junk + "\nfen\n")
	}
	cmd.WriteString("quit\n")
	var out bytes.Buffer
	var errb bytes.Buffer
	func() {
		defer func() {
			if x := recover(); x != nil {
				r.Violation("C11:uci-panic-on-input", witness{Kind: "uci-junk", Input: fmt.Sprintf("%x", cmd.String())}, fmt.Sprintf("panic: %v", x))
			}
		}()
		r.LogCase(1000+int(rng.Uint32()%16), []byte(cmd.String()))
		uci.NewDriver(uci.WithInput(strings.NewReader(cmd.String())), uci.WithOutput(&out), uci.WithError(&errb)).Run()
	}()
	lines := strings.Split(strings.TrimRight(out.String(), "\n"), "\n")
	if len(lines) != n+1 {
		r.Violation("C11:uci-output-shape", witness{Kind: "uci-junk", Input: fmt.Sprintf("%x", cmd.String())}, fmt.Sprintf("expected %d fen lines, got %d", n+1, len(lines)))
		return
	}
	cur := lines[0]
	for k, st := range steps {
		got := lines[k+1]
		r.Eval(1)
		w.lc.C["uci_junk_commands"]++
		// what the statement allows: either the command was rejected and the position is unchanged,
		// or it was accepted and the position is what the parser makes of the first six tokens.
		f := strings.Fields(st.junk)
		accepted := ""
		if len(f) >= 6 {
			if b, err := board.FromFEN(strings.Join(f[:6], " ")); err == nil && !b.InvalidPieceCount() {
				accepted = b.FEN()
				// a move list may follow; accept any board then (C02/C05 judge move lists)
				if len(f) >= 8 && f[6] == "moves" {
					accepted = got
				}
			}
		}
		if accepted == "" {
			w.lc.C["uci_junk_rejected"]++
			if got != cur {
				r.Violation("C11:uci-rejected-fen-replaces-position", witness{Kind: "uci-junk", Input: fmt.Sprintf("%x", st.junk), Prev: cur},
					fmt.Sprintf("position fen %q must be rejected, but the board changed from %s to %s", st.junk, cur, got))
				return
			}
		} else {
			w.lc.C["uci_junk_accepted"]++
			if got != accepted {
				r.Violation("C11:uci-accepted-fen-differs", witness{Kind: "uci-junk", Input: fmt.Sprintf("%x", st.junk), Prev: cur},
					fmt.Sprintf("position fen %q: board is %s, parser gives %s", st.junk, got, accepted))
				return
			}
		}
		cur = got
	}
}

func replay(t *testing.T, r *ev.Run) {
	var w witness
	if err := ev.ReadReplay(r.Replay, &w); err != nil {
		t.Fatal(err)
	}
	wk := &worker{lc: ev.NewLocal()}
	if w.FEN != "" {
		p := ref.MustFEN(w.FEN)
		roundTrip(r, wk, &p, w.Kind)
		return
	}
	var in []byte
	fmt.Sscanf(w.Input, "%x", &in)
	fmt.Printf("replay input %q\n", string(in))
	if w.Kind == "uci-junk" {
		var out, errb bytes.Buffer
		cmd := "position fen " + w.Prev + "\nfen\nposition fen " + string(in) + "\nfen\nquit\n"
		uci.NewDriver(uci.WithInput(strings.NewReader(cmd)), uci.WithOutput(&out), uci.WithError(&errb)).Run()
		fmt.Printf("uci output:\n%sstderr: %s\n", out.String(), errb.String())
		l := strings.Split(strings.TrimSpace(out.String()), "\n")
		if len(l) == 2 && l[0] != l[1] {
			if _, err := board.FromFEN(strings.Join(strings.Fields(string(in))[:min(6, len(strings.Fields(string(in))))], " ")); err != nil {
				r.Violation("C11:uci-rejected-fen-replaces-position", w, out.String())
			}
		}
		return
	}
	parseOne(r, wk, in)
}
