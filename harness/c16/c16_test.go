package c16

import (
	"fmt"
	"io"
	"math/rand/v2"
	"sort"
	"testing"

	"github.com/paulsonkoly/chess-3/board"
	"github.com/paulsonkoly/chess-3/chess"
	"github.com/paulsonkoly/chess-3/heur"
	"github.com/paulsonkoly/chess-3/move"
	"github.com/paulsonkoly/chess-3/picker"
	"github.com/paulsonkoly/chess-3/search"
	"github.com/paulsonkoly/chess-3/stack"

	"verif/harness/conv"
	"verif/harness/eng"
	"verif/harness/ev"
	"verif/harness/gen"
	"verif/harness/ref"
)

type witness struct {
	Kind   string   `json:"kind"`
	FEN    string   `json:"fen,omitempty"`
	Hash   int      `json:"hash_candidate"`
	Ranker string   `json:"ranker_state,omitempty"`
	Stack  []string `json:"history_stack,omitempty"`
	Table  string   `json:"table,omitempty"`
	Stored int      `json:"stored,omitempty"`
	Bonus  int      `json:"bonus,omitempty"`
}

// the band layout is the engine's own (exported constants of package heur): the property asks that
// the designed bands are respected and cannot be confused, not for particular numbers. TestCheck
// asserts that the layout itself keeps the bands apart.
const (
	hashW      = int(heur.HashMove)
	captures   = int(heur.Captures)
	maxHistory = int(heur.MaxHistory)
)

type state struct {
	ms     *move.Store
	hst    *stack.Stack[heur.StackMove]
	lc     *ev.Local
	ranker *heur.MoveRanker
	rname  string
}

func encStr(e int) string {
	m := ref.Move(e & 0x7fff)
	return fmt.Sprintf("%d(%c%c%c%c/p%d)", e, 'a'+m.From()%8, '1'+m.From()/8, 'a'+m.To()%8, '1'+m.To()/8, m.Promo())
}

// runPicker iterates the real picker to exhaustion and judges the sequence.
func runPicker(r *ev.Run, s *state, p *ref.Pos, b *board.Board, genList []move.Move, inGen map[move.Move]int, h move.Move, stackDesc []string) {
	s.ms.Clear()
	pk := picker.New(b, h, s.ms, s.ranker, s.hst)
	s.ms.Push()
	got := map[move.Move]int{}
	var order []move.Move
	first := move.Move(0)
	n := 0
	badWeight := ""
	for pk.Next() {
		w := pk.Move()
		if n == 0 {
			first = w.Move
		}
		n++
		got[w.Move]++
		order = append(order, w.Move)
		if n > 400 {
			break
		}
		// band check at yield time
		wt := int(w.Weight)
		capt := b.SquaresToPiece[b.CaptureSq(w.Move)] != chess.NoPiece
		noisy := capt || w.Move.Promo() != chess.NoPiece
		switch {
		case w.Move == h && n == 1 && wt == hashW:
		case !noisy:
			// what the property needs from a quiet weight: it never reaches a capture band (and so can
			// never be the "already yielded" sentinel below it). How the space between the bands is
			// used - three history tables, four, a separate slot for a counter move - is design.
			if wt <= -captures || wt >= captures {
				badWeight = fmt.Sprintf("quiet move %v yielded with weight %d: not strictly between the capture bands (+-%d)", w.Move, wt, captures)
			}
			s.lc.C["quiet_weights_checked"]++
			if wt == 3*maxHistory || wt == -3*maxHistory {
				s.lc.C["quiet_weight_at_band_edge"]++
			}
		default:
			// documented layout (heur/heur.go): good captures in [Captures, HashMove), bad captures
			// at or below -Captures but above the -HashMove "already yielded" sentinel
			good := wt >= captures && wt < hashW
			bad := wt <= -captures && wt > -hashW
			if !good && !bad {
				badWeight = fmt.Sprintf("noisy move %v yielded with weight %d outside the capture bands", w.Move, wt)
			}
			s.lc.C["noisy_weights_checked"]++
			if bad {
				s.lc.C["bad_captures_yielded"]++
			}
		}
	}
	s.ms.Pop()
	r.Eval(1)
	s.lc.C["picker_runs"]++
	wit := witness{Kind: "picker", FEN: p.FEN(), Hash: conv.Triple(h), Ranker: s.rname, Stack: stackDesc}
	same := len(got) == len(inGen)
	if same {
		for m, c := range got {
			if inGen[m] != c {
				same = false
			}
		}
	}
	if !same {
		var missing, extra, dup []string
		for m := range inGen {
			if got[m] == 0 {
				missing = append(missing, m.String())
			}
		}
		for m, c := range got {
			if inGen[m] == 0 {
				extra = append(extra, encStr(conv.Triple(m)))
			} else if c > 1 {
				dup = append(dup, m.String())
			}
		}
		sort.Strings(missing)
		cls := "missing"
		if len(dup) > 0 {
			cls = "duplicate"
		} else if len(extra) > 0 {
			cls = "extra"
		}
		r.Violation("C16:not-a-permutation:"+cls, wit, fmt.Sprintf("%s hash candidate %s ranker %s: yielded %d moves, generator has %d; missing %v, not generated %v, twice %v", p.FEN(), encStr(conv.Triple(h)), s.rname, n, len(genList), missing, extra, dup))
		return
	}
	if _, ok := inGen[h]; ok {
		s.lc.C["runs_with_pseudo_legal_hash_move"]++
		if first != h {
			r.Violation("C16:hash-move-not-first", wit, fmt.Sprintf("%s hash move %v is pseudo-legal but the picker yielded %v first", p.FEN(), h, first))
			return
		}
	} else if h != 0 {
		s.lc.C["runs_with_invalid_hash_move"]++
	}
	if badWeight != "" {
		r.Violation("C16:weight-outside-band", wit, p.FEN()+": "+badWeight)
	}
}

func (s *state) randomStack(rng *rand.Rand) []string {
	s.hst.Reset()
	var d []string
	for n := rng.IntN(4); n > 0; n-- {
		sm := heur.StackMove{Piece: chess.Piece(1 + rng.IntN(6)), To: chess.Square(rng.IntN(64)), Score: chess.Score(rng.IntN(2000) - 1000)}
		s.hst.Push(sm)
		d = append(d, fmt.Sprintf("%d@%d", sm.Piece, sm.To))
	}
	return d
}

// saturate drives a ranker with long FailHigh sequences with extreme depths and weights.
func saturate(rng *rand.Rand, mr *heur.MoveRanker, ms *move.Store, hst *stack.Stack[heur.StackMove], rounds int, polarity int) {
	corpus := gen.Corpus()
	for i := 0; i < rounds; i++ {
		p := corpus[rng.IntN(len(corpus))]
		if i%3 == 0 {
			p = gen.AnyPos(rng)
		}
		b, err := board.FromFEN(p.FEN())
		if err != nil {
			continue
		}
		g := eng.Gen(b, ms)
		if len(g) == 0 {
			continue
		}
		hst.Reset()
		for n := rng.IntN(3); n > 0; n-- {
			hst.Push(heur.StackMove{Piece: chess.Piece(1 + rng.IntN(6)), To: chess.Square(rng.IntN(64))})
		}
		for rep := 0; rep < 8; rep++ {
			rng.Shuffle(len(g), func(a, c int) { g[a], g[c] = g[c], g[a] })
			n := 1 + rng.IntN(len(g))
			if polarity > 0 {
				n = 1 // only bonuses for the chosen move
			}
			mv := make([]move.Weighted, n)
			for j := range mv {
				mv[j].Move = g[j]
				switch rng.IntN(4) {
				case 0:
					mv[j].Weight = -chess.Inf
				case 1:
					mv[j].Weight = chess.Score(rng.IntN(20001) - 10000)
				default:
					mv[j].Weight = chess.Score(rng.IntN(513) - 256)
				}
			}
			d := chess.Depth(rng.IntN(128))
			if rng.IntN(2) == 0 {
				d = chess.Depth(1 + rng.IntN(63))
			}
			mr.FailHigh(d, b, mv, hst)
		}
	}
}

func TestCheck(t *testing.T) {
	r := ev.Start("C16")
	if !(maxHistory > 0 && captures > 3*maxHistory && hashW > captures) {
		r.Violation("C16:band-layout", witness{Kind: "layout"}, fmt.Sprintf("heur.MaxHistory=%d heur.Captures=%d heur.HashMove=%d: the quiet band (+-3*MaxHistory) is not strictly inside (-Captures, Captures) or the hash weight is not above the capture band", maxHistory, captures, hashW))
	}
	if err := ref.SelfTest(); err != nil {
		r.HarnessError("%v", err)
		r.Finish()
		t.Fatal(err)
	}
	if r.Replay != "" {
		replay(t, r)
		r.Finish()
		return
	}
	oneStep(r)

	nw := ev.Workers()
	// ranker states, built once and then only read by the picker runs
	type rk struct {
		name string
		mr   *heur.MoveRanker
	}
	var rankers []rk
	e := heur.NewMoveRanker()
	rankers = append(rankers, rk{"empty", &e})
	nsat := r.N(6, 24)
	sat := make([]heur.MoveRanker, nsat)
	ev.Parallel(nsat, func(wk, i int) {
		sat[i] = heur.NewMoveRanker()
		saturate(r.RNG("c16-sat", i), &sat[i], move.NewStore(), stack.New[heur.StackMove](), r.N(6000, 40000), i%3-1)
		r.Progress()
	})
	for i := range sat {
		rankers = append(rankers, rk{fmt.Sprintf("saturated-%d", i), &sat[i]})
		r.MaxCount("max_history_magnitude_after_saturation", int64(sat[i].VerifMaxAbs()))
		r.Count("nonzero_history_entries_in_saturated_rankers", int64(sat[i].VerifNonZero()))
		if m := sat[i].VerifMaxAbs(); m > maxHistory {
			r.Violation("C16:history-entry-exceeds-bound", witness{Kind: "saturate", Ranker: rankers[len(rankers)-1].name}, fmt.Sprintf("largest stored history magnitude %d > %d after FailHigh sequences", m, maxHistory))
		}
	}
	// realistic: rankers of engines that have just played a few searches
	nreal := r.N(8, 32)
	real := make([]*search.Search, nreal)
	corpus := gen.Corpus()
	ev.Parallel(nreal, func(wk, i int) {
		rng := r.RNG("c16-real", i)
		s := search.New(1 << 20)
		p := corpus[rng.IntN(len(corpus))]
		for mv := 0; mv < 12; mv++ {
			l := p.Legal()
			if len(l) == 0 || p.Half >= 100 {
				break
			}
			b := eng.MustBoard(&p)
			_, bm, _ := s.Go(b, search.WithNodes(r.N(30000, 120000)), search.WithOutput(io.Discard))
			r.Progress()
			var next ref.Move
			for _, m := range l {
				if conv.M(m) == bm {
					next = m
				}
			}
			if next == 0 {
				next = l[rng.IntN(len(l))]
			}
			p = p.Make(next)
			p = p.Normalised()
		}
		real[i] = s
	})
	for i, s := range real {
		rankers = append(rankers, rk{fmt.Sprintf("after-real-searches-%d", i), s.VerifRanker()})
		r.MaxCount("max_history_magnitude_after_real_searches", int64(s.VerifRanker().VerifMaxAbs()))
		r.Count("nonzero_history_entries_after_real_searches", int64(s.VerifRanker().VerifNonZero()))
		if m := s.VerifRanker().VerifMaxAbs(); m > maxHistory {
			r.Violation("C16:history-entry-exceeds-bound", witness{Kind: "real-search", Ranker: rankers[len(rankers)-1].name}, fmt.Sprintf("largest stored history magnitude %d > %d after real searches", m, maxHistory))
		}
	}

	sts := make([]*state, nw)
	for i := range sts {
		sts[i] = &state{ms: move.NewStore(), hst: stack.New[heur.StackMove](), lc: ev.NewLocal()}
	}
	npos := r.N(40000, 400000)
	nrand := r.N(256, 4096)
	ev.Parallel(npos, func(wk, i int) {
		s := sts[wk]
		rng := r.RNG("c16-pos", i)
		var p ref.Pos
		if i < len(corpus) {
			p = corpus[i]
		} else if q, ok := gen.RawEP(rng); ok && i%6 == 0 {
			p = q
		} else {
			p = gen.AnyPos(rng)
		}
		b, err := board.FromFEN(p.FEN())
		if err != nil {
			return
		}
		g := eng.Gen(b, s.ms)
		inGen := map[move.Move]int{}
		for _, m := range g {
			inGen[m]++
		}
		rkr := rankers[rng.IntN(len(rankers))]
		s.ranker, s.rname = rkr.mr, rkr.name
		sd := s.randomStack(rng)
		// hash candidates: none, every generated move, random encodings incl. promotion-bit patterns
		runPicker(r, s, &p, b, g, inGen, 0, sd)
		for _, m := range g {
			runPicker(r, s, &p, b, g, inGen, m, sd)
		}
		for k := 0; k < nrand; k++ {
			var h move.Move
			switch k % 4 {
			case 0:
				h = conv.FromTriple(rng.IntN(1 << 15))
			case 1: // a generated move with other promotion bits
				if len(g) > 0 {
					h = conv.FromTriple(conv.Triple(g[rng.IntN(len(g))])&0x0fff | rng.IntN(8)<<12)
				}
			case 2: // from-square of a real piece, random target
				if len(g) > 0 {
					h = conv.FromTriple(conv.Triple(g[rng.IntN(len(g))])&0x0fc0 | rng.IntN(64) | rng.IntN(8)*rng.IntN(2)<<12)
				}
			default:
				h = conv.FromTriple(rng.IntN(1 << 12))
			}
			runPicker(r, s, &p, b, g, inGen, h, sd)
		}
		r.DistinctStr(p.Key() + s.rname)
		if i%500 == 0 {
			r.Sample(map[string]any{"fen": p.FEN(), "generated": len(g), "ranker": s.rname, "history_stack": sd, "hash_candidates": 1 + len(g) + nrand})
		}
		r.Merge(s.lc)
	})
	r.Finish("picker_runs", "runs_with_pseudo_legal_hash_move", "runs_with_invalid_hash_move", "quiet_weights_checked", "noisy_weights_checked", "bad_captures_yielded",
		"one_step_cases", "nonzero_history_entries_in_saturated_rankers", "nonzero_history_entries_after_real_searches")
}

// oneStep: for each table every stored value e in [-1024,1024] (reached from 0 by one Add(e)) x
// every bonus in [-1100,1100] must stay within +-1024. Exhaustive.
func oneStep(r *ev.Run) {
	type job struct {
		name string
		run  func(e0, e1 int)
	}
	check := func(name string, stored, bonus, got int) {
		if got > maxHistory || got < -maxHistory {
			r.Violation("C16:history-one-step-bound:"+name, witness{Kind: "one-step", Table: name, Stored: stored, Bonus: bonus}, fmt.Sprintf("%s: stored %d, Add(%d) -> %d, outside +-%d", name, stored, bonus, got, maxHistory))
		}
	}
	const lo, hi = -maxHistory - 76, maxHistory + 76
	jobs := []job{
		{"history", func(e0, e1 int) {
			h := heur.NewHistory()
			slot := 0
			for e := e0; e < e1; e++ {
				for b := lo; b <= hi; b++ {
					if slot == 2*64*64 {
						h.Clear()
						slot = 0
					}
					c, f, t := chess.Color(slot>>12), chess.Square(slot>>6&63), chess.Square(slot&63)
					slot++
					h.Add(c, f, t, chess.Score(e))
					if int(h.LookUp(c, f, t)) != e {
						r.HarnessError("history: Add(%d) on an empty slot gave %d", e, h.LookUp(c, f, t))
						return
					}
					h.Add(c, f, t, chess.Score(b))
					check("history", e, b, int(h.LookUp(c, f, t)))
				}
			}
		}},
		{"capthist", func(e0, e1 int) {
			h := heur.NewCaptHist()
			slot := 0
			for e := e0; e < e1; e++ {
				for b := lo; b <= hi; b++ {
					if slot == 6*5*64 {
						h.Clear()
						slot = 0
					}
					mv, cp, sq := chess.Piece(1+slot/(5*64)), chess.Piece(1+slot/64%5), chess.Square(slot%64)
					slot++
					h.Add(mv, cp, sq, chess.Score(e))
					h.Add(mv, cp, sq, chess.Score(b))
					check("capthist", e, b, int(h.LookUp(mv, cp, sq)))
				}
			}
		}},
		{"continuation", func(e0, e1 int) {
			h := heur.NewContinuation()
			slot := 0
			for e := e0; e < e1; e++ {
				for b := lo; b <= hi; b++ {
					if slot == 2*6*64*6*64 {
						h.Clear()
						slot = 0
					}
					x := slot
					to := chess.Square(x % 64)
					x /= 64
					pt := chess.Piece(1 + x%6)
					x /= 6
					th := chess.Square(x % 64)
					x /= 64
					ph := chess.Piece(1 + x%6)
					x /= 6
					c := chess.Color(x)
					slot++
					h.Add(c, ph, th, pt, to, chess.Score(e))
					h.Add(c, ph, th, pt, to, chess.Score(b))
					check("continuation", e, b, int(h.LookUp(c, ph, th, pt, to)))
				}
			}
		}},
	}
	// split the stored-value range into 16 slices per table
	type unit struct {
		j      job
		e0, e1 int
	}
	var units []unit
	for _, j := range jobs {
		for e := -maxHistory; e <= maxHistory; e += 129 {
			units = append(units, unit{j, e, min(e+129, maxHistory+1)})
		}
	}
	ev.Parallel(len(units), func(wk, i int) {
		u := units[i]
		u.j.run(u.e0, u.e1)
		n := (u.e1 - u.e0) * (hi - lo + 1)
		r.Eval(n)
		r.Count("one_step_cases", int64(n))
		r.Count("one_step_cases_"+u.j.name, int64(n))
	})
	r.Sample(map[string]any{"kind": "one-step-bound", "tables": []string{"history", "capthist", "continuation"}, "stored": fmt.Sprintf("[-%d,%d]", maxHistory, maxHistory), "bonus": fmt.Sprintf("[%d,%d]", lo, hi), "exhaustive": true})
}

func replay(t *testing.T, r *ev.Run) {
	var w witness
	if err := ev.ReadReplay(r.Replay, &w); err != nil {
		t.Fatal(err)
	}
	if w.Kind != "picker" {
		oneStep(r)
		return
	}
	p := ref.MustFEN(w.FEN)
	b := eng.MustBoard(&p)
	s := &state{ms: move.NewStore(), hst: stack.New[heur.StackMove](), lc: ev.NewLocal(), rname: "empty(replay)"}
	e := heur.NewMoveRanker()
	s.ranker = &e
	g := eng.Gen(b, s.ms)
	inGen := map[move.Move]int{}
	for _, m := range g {
		inGen[m]++
	}
	for _, d := range w.Stack {
		var pc, to int
		fmt.Sscanf(d, "%d@%d", &pc, &to)
		s.hst.Push(heur.StackMove{Piece: chess.Piece(pc), To: chess.Square(to)})
	}
	fmt.Printf("replay: %s hash candidate %s with an empty ranker (the recorded ranker state %q is not serialised)\n", w.FEN, encStr(w.Hash), w.Ranker)
	runPicker(r, s, &p, b, g, inGen, conv.FromTriple(w.Hash), w.Stack)
}
