package c05

import (
	"bytes"
	"fmt"
	"math/rand/v2"
	"strings"
	"testing"

	"github.com/paulsonkoly/chess-3/board"
	"github.com/paulsonkoly/chess-3/chess"
	"github.com/paulsonkoly/chess-3/move"
	"github.com/paulsonkoly/chess-3/uci"

	"verif/harness/conv"
	"verif/harness/eng"
	"verif/harness/ev"
	"verif/harness/gen"
	"verif/harness/ref"
)

type witness struct {
	Kind     string `json:"kind"`
	FEN      string `json:"fen"`
	Encoding int    `json:"encoding"`
	Text     string `json:"text,omitempty"`
}

func encName(e int) string {
	m := ref.Move(e)
	return fmt.Sprintf("%s%s/promo=%d", string([]byte{byte('a' + m.From()%8), byte('1' + m.From()/8)}), string([]byte{byte('a' + m.To()%8), byte('1' + m.To()/8)}), m.Promo())
}

var pieceName = []string{"none", "pawn", "knight", "bishop", "rook", "queen", "king", "?"}

// checkAll compares IsPseudoLegal with generator membership for all 2^15 encodings.
func checkAll(r *ev.Run, lc *ev.Local, ms *move.Store, p *ref.Pos, b *board.Board, kind string) (genSet *[1 << 15]bool) {
	var in [1 << 15]bool
	g := eng.Gen(b, ms)
	for _, m := range g {
		in[conv.Triple(m)] = true
	}
	var refIn [1 << 15]bool
	for _, m := range p.Pseudo() {
		refIn[int(m)&0x7fff] = true
	}
	fen := p.FEN()
	bad := 0
	for e := 0; e < 1<<15; e++ {
		got := b.IsPseudoLegal(conv.FromTriple(e))
		if got == in[e] {
			if got {
				lc.C["accepted_generated"]++
			}
			continue
		}
		bad++
		if bad > 3 {
			continue
		}
		pc := pieceName[b.SquaresToPiece[ref.Move(e).From()]]
		cls := "accepts-non-generated"
		if !got {
			cls = "rejects-generated"
		}
		r.Violation(fmt.Sprintf("C05:%s:%s:promo%d", cls, pc, ref.Move(e).Promo()), witness{Kind: kind, FEN: fen, Encoding: e},
			fmt.Sprintf("%s encoding %d (%s, moving %s): IsPseudoLegal=%v, generator emits it=%v, reference pseudo-legal=%v", fen, e, encName(e), pc, got, in[e], refIn[e]))
	}
	r.Eval(1 << 15)
	lc.C["encodings_checked"] += 1 << 15
	lc.C["positions"]++
	// cross-check that localises a fault: generator vs reference pseudo-legal set
	for e := 0; e < 1<<15; e++ {
		if in[e] != refIn[e] {
			lc.C["generator_vs_reference_differences"]++
			break
		}
	}
	return &in
}

func features(lc *ev.Local, p *ref.Pos) {
	sg := int8(1)
	r2, r7 := 1, 6
	if !p.White {
		sg, r2, r7 = -1, 6, 1
	}
	for f := 0; f < 8; f++ {
		if p.Sq[r7*8+f] == sg*ref.P {
			lc.C["positions_with_pawn_on_7th"]++
			break
		}
	}
	for f := 0; f < 8; f++ {
		if p.Sq[r2*8+f] == sg*ref.P {
			lc.C["positions_with_pawn_on_2nd"]++
			break
		}
	}
	if p.EP >= 0 {
		lc.C["positions_with_en_passant"]++
	}
	for _, m := range p.Pseudo() {
		if p.IsCastle(m) {
			lc.C["positions_with_castling"]++
			break
		}
	}
}

func TestCheck(t *testing.T) {
	r := ev.Start("C05")
	if err := ref.SelfTest(); err != nil {
		r.HarnessError("%v", err)
		r.Finish()
		t.Fatal(err)
	}
	if r.Replay != "" {
		var w witness
		if err := ev.ReadReplay(r.Replay, &w); err != nil {
			t.Fatal(err)
		}
		p := ref.MustFEN(w.FEN)
		b := eng.MustBoard(&p)
		if w.Kind == "uci" {
			uciPosition(r, ev.NewLocal(), move.NewStore(), &p, rand.New(rand.NewPCG(1, 1)), true)
		} else {
			checkAll(r, ev.NewLocal(), move.NewStore(), &p, b, w.Kind)
		}
		r.Finish()
		return
	}
	nw := ev.Workers()
	lcs := make([]*ev.Local, nw)
	mss := make([]*move.Store, nw)
	for i := range lcs {
		lcs[i], mss[i] = ev.NewLocal(), move.NewStore()
	}
	corpus := gen.Corpus()
	n := r.N(100000, 4000000)
	ev.Parallel(n, func(wk, i int) {
		lc := lcs[wk]
		rng := r.RNG("c05", i)
		var p ref.Pos
		switch {
		case i < len(corpus):
			p = corpus[i]
		case i%5 == 0:
			st := gen.Playout(rng, corpus[rng.IntN(len(corpus))], 1+rng.IntN(80), gen.BiasRich, 100)
			if len(st) == 0 {
				p = gen.AnyPos(rng)
			} else {
				p = st[len(st)-1].Pos
			}
		case i%5 == 3:
			// FEN-loaded RAW e.p. target: a pseudo-legal capturer may exist although no capture is legal
			q, ok := gen.RawEP(rng)
			if !ok {
				q = gen.AnyPos(rng)
			} else if n := q.Normalised(); n.EP < 0 {
				lc.C["positions_with_raw_non_capturable_ep_target"]++
			}
			p = q
		case i%5 == 2:
			q, ok := gen.Castle(rng)
			if !ok {
				q = gen.AnyPos(rng)
			}
			p = q
		case i%5 == 1:
			q, ok := gen.PrePush(rng)
			if !ok {
				q = gen.AnyPos(rng)
			}
			p = q
		default:
			p = gen.AnyPos(rng)
		}
		b, err := board.FromFEN(p.FEN())
		if err != nil {
			return
		}
		features(lc, &p)
		checkAll(r, lc, mss[wk], &p, b, "loaded")
		r.DistinctStr(p.Key())
		if i%400 == 0 {
			r.Sample(map[string]any{"fen": p.FEN(), "generated_moves": len(eng.Gen(b, mss[wk])), "encodings": 1 << 15})
		}
		r.Merge(lc)
	})
	// end to end: every 4/5-character move string through `position fen F moves X` then `fen`
	nu := r.N(160, 6400)
	ev.Parallel(nu, func(wk, i int) {
		rng := r.RNG("c05-uci", i)
		p := gen.AnyPos(rng)
		if i%3 == 0 {
			if q, ok := gen.Adv(rng); ok {
				p = q
			}
		}
		p.Half = p.Half % 101
		uciPosition(r, lcs[wk], mss[wk], &p, rng, false)
		r.Merge(lcs[wk])
	})
	r.Finish("encodings_checked", "accepted_generated", "positions_with_pawn_on_7th", "positions_with_pawn_on_2nd", "positions_with_en_passant",
		"positions_with_castling", "positions_with_raw_non_capturable_ep_target", "uci_strings_checked", "uci_strings_played", "uci_out_of_alphabet_strings")
}

// uciPosition sends every in-alphabet move string (and some out-of-alphabet ones) for one position
// through the real driver; the printed position must be F itself or the successor under a generated move.
func uciPosition(r *ev.Run, lc *ev.Local, ms *move.Store, p *ref.Pos, rng *rand.Rand, verbose bool) {
	fen := p.FEN()
	b := eng.MustBoard(p)
	g := eng.Gen(b, ms)
	succ := map[string]move.Move{} // successor FEN -> generated move
	byEnc := map[int]string{}
	for _, m := range g {
		rv := b.MakeMove(m)
		f := b.FEN()
		b.UndoMove(m, rv)
		succ[f] = m
		byEnc[conv.Triple(m)] = f
	}
	legalTxt := map[string]bool{}
	for _, m := range p.Legal() {
		legalTxt[m.String()] = true
	}
	var strs []string
	promo := []string{"", "q", "r", "b", "n"}
	for from := 0; from < 64; from++ {
		for to := 0; to < 64; to++ {
			for _, pr := range promo {
				strs = append(strs, string([]byte{byte('a' + from%8), byte('1' + from/8), byte('a' + to%8), byte('1' + to/8)})+pr)
			}
		}
	}
	nIn := len(strs)
	alpha := "abcdefghi`0123456789:;qrnbkpQRNBx-+ "
	for k := 0; k < 2000; k++ {
		l := 4 + rng.IntN(2)
		bs := make([]byte, l)
		for j := range bs {
			if j < 4 && rng.IntN(3) > 0 {
				bs[j] = "abcdefgh12345678"[rng.IntN(16)]
			} else {
				bs[j] = alpha[rng.IntN(len(alpha)-1)] // no space inside a token
			}
		}
		strs = append(strs, string(bs))
	}
	var cmd strings.Builder
	for _, s := range strs {
		cmd.WriteString("position fen " + fen + " moves " + s + "\nfen\n")
	}
	cmd.WriteString("quit\n")
	var out, errb bytes.Buffer
	drv := uci.NewDriver(uci.WithInput(strings.NewReader(cmd.String())), uci.WithOutput(&out), uci.WithError(&errb))
	drv.Run()
	lines := strings.Split(strings.TrimRight(out.String(), "\n"), "\n")
	if len(lines) != len(strs) {
		r.Violation("C05:uci-output-shape", witness{Kind: "uci", FEN: fen}, fmt.Sprintf("sent %d position+fen pairs, got %d lines", len(strs), len(lines)))
		return
	}
	for k, s := range strs {
		got := lines[k]
		r.Eval(1)
		lc.C["uci_strings_checked"]++
		if k >= nIn {
			lc.C["uci_out_of_alphabet_strings"]++
			if _, ok := succ[got]; got != fen && !ok {
				r.Violation("C05:uci-plays-non-generated-move:out-of-alphabet", witness{Kind: "uci", FEN: fen, Text: s},
					fmt.Sprintf("position %s, move string %q: board became %s, which is neither the position nor a successor under a generated move", fen, s, got))
			} else if got != fen {
				lc.C["uci_out_of_alphabet_aliased_to_generated_move"]++
			}
			continue
		}
		from := int(s[0]-'a') + 8*int(s[1]-'1')
		to := int(s[2]-'a') + 8*int(s[3]-'1')
		pr := 0
		if len(s) == 5 {
			pr = map[byte]int{'q': int(chess.Queen), 'r': int(chess.Rook), 'b': int(chess.Bishop), 'n': int(chess.Knight)}[s[4]]
		}
		e := to | from<<6 | pr<<12
		want, isGen := byEnc[e]
		if !isGen {
			want = fen
		} else {
			lc.C["uci_strings_played"]++
		}
		if verbose && got != fen {
			fmt.Printf("replay: %q -> %s (generated=%v)\n", s, got, isGen)
		}
		if isGen && got == fen && !legalTxt[s] {
			// a generated move that leaves the mover's king attacked: a driver may play it (the
			// search filters later) or refuse it; both keep non-moves off the board
			lc.C["uci_pseudo_legal_illegal_moves_refused"]++
			continue
		}
		if got != want {
			cls := "plays-non-generated-move"
			if isGen {
				cls = "rejects-generated-move"
			}
			r.Violation("C05:uci-"+cls, witness{Kind: "uci", FEN: fen, Encoding: e, Text: s},
				fmt.Sprintf("position %s, move string %q (generated=%v): board became %s, expected %s", fen, s, isGen, got, want))
		}
	}
}
