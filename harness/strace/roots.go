package strace

import (
	"math/rand/v2"

	"verif/harness/gen"
	"verif/harness/ref"
)

// RootKinds lists the root classes RandomRoot can build.
var RootKinds = []string{"played", "fresh", "in-check", "few-replies", "promotion", "near-fifty", "repetition-2", "repetition-3", "mate", "stalemate", "dense", "castle", "blocked-castle", "locked"}

func stepsMoves(st []gen.Step) []ref.Move {
	m := make([]ref.Move, len(st))
	for i, s := range st {
		m[i] = s.Move
	}
	return m
}

// RandomRoot builds a valid search root of the requested class (falls back to "played").
func RandomRoot(rng *rand.Rand, kind string) (Root, string) {
	corpus := gen.Corpus()
	for try := 0; try < 200; try++ {
		switch kind {
		case "fresh":
			p := corpus[rng.IntN(len(corpus))]
			p.Half %= 90
			return NewRoot(p, nil), kind
		case "blocked-castle":
			// castling right present, the path squares next to the king empty, but castling is not
			// available: the b-file square is occupied (long side) or a path square is attacked/occupied
			var p ref.Pos
			p.EP = -1
			p.Full = 1 + rng.IntN(40)
			p.White = rng.IntN(2) == 0
			p.Sq[4], p.Sq[60] = ref.K, -ref.K
			p.Sq[0], p.Sq[7], p.Sq[56], p.Sq[63] = ref.R, ref.R, -ref.R, -ref.R
			p.Castle = ref.WK | ref.WQ | ref.BK | ref.BQ
			for _, b := range []int{1, 57} {
				if rng.IntN(4) != 0 {
					v := int8(2 + rng.IntN(2))
					if (b > 8) != (rng.IntN(4) == 0) {
						v = -v
					}
					p.Sq[b] = v
				}
			}
			for _, s := range []int{5, 6, 61, 62} {
				if rng.IntN(3) == 0 {
					v := int8(2 + rng.IntN(2))
					if s > 8 {
						v = -v
					}
					p.Sq[s] = v
				}
			}
			for i := 0; i < 8; i++ {
				if rng.IntN(3) != 0 {
					p.Sq[8+i] = ref.P
				}
				if rng.IntN(3) != 0 {
					p.Sq[48+i] = -ref.P
				}
			}
			for i := rng.IntN(6); i > 0; i-- {
				s := 16 + rng.IntN(32)
				v := int8(2 + rng.IntN(4))
				if rng.IntN(2) == 0 {
					v = -v
				}
				p.Sq[s] = v
			}
			if p.Valid() && len(p.Legal()) > 0 {
				return NewRoot(p.Normalised(), nil), kind
			}
		case "locked":
			// rammed pawn pairs, kings on the edge, at most two other pieces: one to three legal moves,
			// most pseudo-legal moves (pawn captures onto defended squares aside) are king steps
			var p ref.Pos
			p.EP = -1
			p.Full = 1 + rng.IntN(60)
			p.Half = rng.IntN(40)
			p.White = rng.IntN(2) == 0
			if rng.IntN(2) == 0 {
				// boxed king: white Kh1/Ka1 behind two rammed pawns, its only quiet move the step along
				// the back rank; enemy men where the pawns could capture them (not necessarily legally)
				p.White = true
				kf, d := 7, -1
				if rng.IntN(2) == 0 {
					kf, d = 0, 1
				}
				p.Sq[kf] = ref.K
				p.Sq[8+kf], p.Sq[8+kf+d] = ref.P, ref.P
				p.Sq[16+kf], p.Sq[16+kf+d] = -ref.P, -ref.P
				for i := rng.IntN(3); i > 0; i-- {
					sq := 16 + kf + 2*d
					if rng.IntN(3) == 0 {
						sq = 8 + kf + 2*d
					}
					p.Sq[sq] = -int8(2 + rng.IntN(4))
				}
				for f := 0; f < 8; f++ {
					if rk := 1 + rng.IntN(5); rng.IntN(10) < 4 && p.Sq[rk*8+f] == 0 && p.Sq[(rk+1)*8+f] == 0 && p.Sq[f] != ref.K {
						p.Sq[rk*8+f], p.Sq[(rk+1)*8+f] = ref.P, -ref.P
					}
				}
				bk := 40 + rng.IntN(24)
				if p.Sq[bk] != 0 {
					continue
				}
				p.Sq[bk] = -ref.K
				if rng.IntN(2) == 0 {
					p = p.Mirror()
				}
				if p.Valid() && len(p.Legal()) >= 1 {
					return NewRoot(p.Normalised(), nil), kind
				}
				continue
			}
			for f := 0; f < 8; f++ {
				if rng.IntN(10) < 6 {
					rk := 1 + rng.IntN(5) // white pawn on rank index 1..5, black pawn right in front
					p.Sq[rk*8+f], p.Sq[(rk+1)*8+f] = ref.P, -ref.P
				}
			}
			edge := func() int {
				switch rng.IntN(4) {
				case 0:
					return rng.IntN(8)
				case 1:
					return 56 + rng.IntN(8)
				case 2:
					return 8 * rng.IntN(8)
				}
				return 8*rng.IntN(8) + 7
			}
			wk, bk := edge(), edge()
			if p.Sq[wk] != 0 || p.Sq[bk] != 0 || wk == bk {
				continue
			}
			p.Sq[wk], p.Sq[bk] = ref.K, -ref.K
			for i := rng.IntN(3); i > 0; i-- {
				sq := rng.IntN(64)
				if p.Sq[sq] != 0 {
					continue
				}
				v := int8(2 + rng.IntN(2))
				if rng.IntN(2) == 0 {
					v = -v
				}
				p.Sq[sq] = v
			}
			if p.Valid() {
				if n := len(p.Legal()); n >= 1 && n <= 3 {
					return NewRoot(p.Normalised(), nil), kind
				}
			}
		case "castle":
			if p, ok := gen.Castle(rng); ok && len(p.Legal()) > 0 {
				p.Half %= 90
				return NewRoot(p, nil), kind
			}
		case "dense":
			if p, ok := gen.Dense(rng); ok {
				p.Half %= 90
				return NewRoot(p, nil), kind
			}
		case "in-check", "few-replies", "promotion", "mate", "stalemate":
			p, ok := gen.Adv(rng)
			if !ok || p.Half >= 90 {
				continue
			}
			l := p.Legal()
			chk := p.InCheck(p.White)
			switch kind {
			case "in-check":
				if !chk || len(l) == 0 {
					continue
				}
			case "few-replies":
				if len(l) == 0 || len(l) > 2 {
					continue
				}
			case "promotion":
				has := false
				for _, m := range l {
					if m.Promo() != 0 {
						has = true
					}
				}
				if !has {
					q, ok := gen.Dense(rng)
					if !ok {
						continue
					}
					p = q
					p.Half %= 90
					for _, m := range p.Legal() {
						if m.Promo() != 0 {
							has = true
						}
					}
					if !has {
						continue
					}
				}
			case "mate":
				if !chk || len(l) != 0 {
					continue
				}
			case "stalemate":
				if chk || len(l) != 0 {
					continue
				}
			}
			return NewRoot(p, nil), kind
		case "near-fifty":
			p := corpus[rng.IntN(len(corpus))]
			p.Half = 94 + rng.IntN(7) // 94..100
			st := gen.Playout(rng, p, rng.IntN(8), gen.BiasQuiet, 150)
			r := NewRoot(p, stepsMoves(st))
			if r.Pos.Half >= 96 && r.Pos.Half <= 104 {
				return r, kind
			}
		case "repetition-2", "repetition-3":
			want := 2
			if kind == "repetition-3" {
				want = 3
			}
			p := corpus[rng.IntN(len(corpus))]
			p.Half %= 40
			st := gen.Shuffle(rng, p, 60, 0.9, 100)
			cnt := map[string]int{p.Key(): 1}
			for i, s := range st {
				cnt[s.Pos.Key()]++
				if cnt[s.Pos.Key()] == want && s.Pos.Half < 100 && len(s.Pos.Legal()) > 0 {
					return NewRoot(p, stepsMoves(st[:i+1])), kind
				}
				if cnt[s.Pos.Key()] > want {
					break
				}
			}
		default: // played
			p := corpus[rng.IntN(len(corpus))]
			if rng.IntN(3) == 0 {
				p = gen.AnyPos(rng)
			}
			p.Half %= 80
			st := gen.Playout(rng, p, 1+rng.IntN(40), gen.BiasRich, 95)
			r := NewRoot(p, stepsMoves(st))
			if len(r.Pos.Legal()) > 0 {
				return r, "played"
			}
		}
	}
	p := corpus[0]
	return NewRoot(p, nil), "fresh"
}
