package strace

import (
	"fmt"
	"math/rand/v2"
	"sync/atomic"
	"time"

	"github.com/paulsonkoly/chess-3/board"
	"github.com/paulsonkoly/chess-3/chess"
	"github.com/paulsonkoly/chess-3/search"
	"github.com/paulsonkoly/chess-3/transp"

	"verif/harness/conv"
	"verif/harness/ev"
	"verif/harness/ref"
)

// Request describes one search request.
type Request struct {
	Depth     int    `json:"depth,omitempty"`      // 0 = no depth limit given
	Nodes     int    `json:"nodes"`                // -1 = none
	SoftNodes int    `json:"soft_nodes,omitempty"` // 0 = none
	Stop      string `json:"stop,omitempty"`       // "", "preclosed", "async"
	StopUs    int    `json:"stop_after_us,omitempty"`
	NoOutput  bool   `json:"no_output,omitempty"`
	SoftTime  int    `json:"soft_time_ms,omitempty"` // wall-clock soft limit: only legality is judged, never timing
	Ponder    string `json:"ponder,omitempty"`       // "", "hit" (ponderhit after PonderUs), "miss" (never hit; a stop must end it)
	PonderUs  int    `json:"ponderhit_after_us,omitempty"`
}

// Case is a replayable search case: engine configuration, the requests issued on that engine
// since its last Clear (the last one is the judged one) and the root.
type Case struct {
	Kind     string    `json:"kind"`
	RootKind string    `json:"root_kind"`
	Start    string    `json:"start_fen"`
	Moves    []string  `json:"moves"`
	TTBytes  int       `json:"tt_bytes"`
	Requests []Request `json:"requests_since_clear"`
	Params   []string  `json:"spsa_params,omitempty"`
	// WarmFEN: before the requests, the same engine searched this other position (depth 4): state
	// left behind by a search of a DIFFERENT root (PV buffer, tables, histories).
	WarmFEN string `json:"warm_up_fen,omitempty"`
	// Poison: transposition-table entries written for the root hash (and its successors) before
	// every request, the way a 16-bit signature collision leaves another position's move there.
	Poison []PoisonEntry `json:"tt_poison,omitempty"`
}

// PoisonEntry is one planted table entry: Path = moves from the root to the position it is keyed to.
type PoisonEntry struct {
	Path  []string `json:"path"`
	Move  int      `json:"move"`
	Depth int      `json:"depth"`
	Value int      `json:"value"`
	Type  int      `json:"type"`
}

func (q Request) options(stop <-chan struct{}) []search.Option {
	var o []search.Option
	if q.Depth > 0 {
		o = append(o, search.WithDepth(chess.Depth(q.Depth)))
	}
	if q.Nodes != -1 {
		o = append(o, search.WithNodes(q.Nodes))
	}
	if q.SoftNodes > 0 {
		o = append(o, search.WithSoftNodes(q.SoftNodes))
	}
	if stop != nil {
		o = append(o, search.WithStop(stop))
	}
	if q.SoftTime > 0 {
		o = append(o, search.WithSoftTime(int64(q.SoftTime)))
	}
	return o
}

// Completed reports whether a search answering q was certainly not aborted.
func (q Request) Completed(res *Result) bool {
	if q.Stop != "" || q.Ponder != "" {
		return false
	}
	if q.Nodes == -1 {
		return true
	}
	// a hard budget that was not reached
	for _, in := range res.Infos {
		if in.Abort {
			return false
		}
	}
	return !q.NoOutput && res.Nodes < q.Nodes
}

// Exec runs one request on engine s and board b.
func Exec(s *search.Search, b *board.Board, q Request) Result {
	var stop chan struct{}
	switch q.Stop {
	case "preclosed":
		stop = make(chan struct{})
		close(stop)
	case "async":
		stop = make(chan struct{})
		go func(c chan struct{}, us int) {
			if us > 0 {
				time.Sleep(time.Duration(us) * time.Microsecond)
			}
			close(c)
		}(stop, q.StopUs)
	}
	opts := q.options(stop)
	if q.Ponder != "" {
		// limits are ignored while pondering; "hit" turns the search into a normal one later
		ph := make(chan time.Time, 1)
		opts = append(opts, search.WithPonderHit(ph))
		if q.Ponder == "hit" {
			go func(us int) {
				if us > 0 {
					time.Sleep(time.Duration(us) * time.Microsecond)
				}
				ph <- time.Now()
			}(q.PonderUs)
		}
	}
	if q.NoOutput {
		var cnt search.Counters
		opts = append(opts, search.WithOutput(nil), search.WithCounters(&cnt))
		sc, mv, pm := s.Go(b, opts...)
		return Result{Score: sc, Move: mv, Ponder: pm, Nodes: cnt.Nodes}
	}
	return Run(s, b, opts...)
}

// Judge is called after every search of a campaign.
type Judge func(c *Case, root *Root, q Request, res *Result, boardUnchanged bool, snapDiff string)

// Campaign drives the shared C06/C07 workload: roots of every class x limit combinations x the
// abort sweep (WithNodes(k) for every k in [0,K]) x stop signals x table sizes, on engines whose
// tables carry over between the searches of one root.
type Campaign struct {
	R         *ev.Run
	Stream    string
	Roots     int // roots per class for the mixed requests
	Sweeps    int // roots for the abort sweep
	SweepK    int // K of the abort sweep
	Deep      int // very deep searches (iteration depth 40..63) on bare endgames; very wide roots (100+ legal moves)
	DeepNodes int // node cap of one deep search
	Judge     Judge
	Params    []string
	Searches  atomic.Int64
}

var ttSizes = []int{32, 64, 32000, 1 << 20, 1 << 20, 16 << 20}

// plant writes the poison entries into the engine's table.
func plant(s *search.Search, root *Root, poison []PoisonEntry) {
	for _, pe := range poison {
		b, err := root.Board()
		if err != nil {
			return
		}
		cur := root.Pos
		ok := true
		for _, name := range pe.Path {
			m, found := findMove(&cur, name)
			if !found {
				ok = false
				break
			}
			b.MakeMove(conv.M(m))
			cur = cur.Make(m)
			cur = cur.Normalised()
		}
		if ok {
			s.VerifTT().Insert(b.Hash(), s.VerifGen(), chess.Depth(pe.Depth), 0, conv.FromTriple(pe.Move), chess.Score(pe.Value), transp.Type(pe.Type))
		}
	}
}

// makePoison picks entries for the root and some successors: moves that are pseudo-legal but
// illegal there, moves of other positions, and arbitrary encodings.
func makePoison(rng *rand.Rand, root *Root) []PoisonEntry {
	var out []PoisonEntry
	add := func(path []string, p *ref.Pos) {
		legal := map[ref.Move]bool{}
		for _, m := range p.Legal() {
			legal[m] = true
		}
		var bad []ref.Move
		for _, m := range p.Pseudo() {
			if !legal[m] {
				bad = append(bad, m)
			}
		}
		var mv int
		// "almost" moves: encodings that are genuine moves in slightly different positions
		almost := []int{4<<6 | 6, 4<<6 | 2, 60<<6 | 62, 60<<6 | 58} // the four castling encodings
		for f := 0; f < 8; f++ {
			almost = append(almost, (8+f)<<6|(24+f), (48+f)<<6|(32+f)) // double pushes
		}
		switch {
		case rng.IntN(4) == 0:
			mv = almost[rng.IntN(len(almost))]
		case len(bad) > 0 && rng.IntN(3) != 0:
			mv = int(bad[rng.IntN(len(bad))])
		case rng.IntN(2) == 0:
			mv = rng.IntN(1 << 15)
		default:
			mv = rng.IntN(1 << 12)
		}
		val := []int{0, 50, -50, 9990, -9990, 300, -300}[rng.IntN(7)]
		out = append(out, PoisonEntry{Path: path, Move: mv, Depth: rng.IntN(12), Value: val, Type: rng.IntN(3)})
	}
	add(nil, &root.Pos)
	l := root.Pos.Legal()
	for k := 0; k < 3 && len(l) > 0; k++ {
		m := l[rng.IntN(len(l))]
		nx := root.Pos.Make(m)
		nx = nx.Normalised()
		add([]string{m.String()}, &nx)
	}
	return out
}

func (c *Campaign) one(cs *Case, root *Root, s *search.Search, q Request, lc *ev.Local, wk int) {
	b, err := root.Board()
	if err != nil {
		return
	}
	cs.Requests = append(cs.Requests, q)
	// crash witness: an immutable summary (the heartbeat goroutine reads it concurrently)
	c.R.Current(wk, map[string]any{"kind": cs.Kind, "root_kind": cs.RootKind, "start_fen": cs.Start, "history_plies": len(cs.Moves), "tt_bytes": cs.TTBytes,
		"warm_up_fen": cs.WarmFEN, "planted_entries": len(cs.Poison), "requests_since_clear": len(cs.Requests), "current_request": q})
	if len(cs.Poison) > 0 {
		plant(s, root, cs.Poison)
		lc.C["searches_on_poisoned_table"]++
	}
	before := b.VerifSnapshot()
	res := Exec(s, b, q)
	after := b.VerifSnapshot()
	same := after.Equal(before)
	diff := ""
	if !same {
		diff = fmt.Sprintf("before %+v\nafter  %+v", short(before), short(after))
	}
	c.Searches.Add(1)
	c.R.Eval(1)
	lc.C["searches"]++
	lc.C["nodes_searched"] += int64(res.Nodes)
	lc.C["root_"+cs.RootKind]++
	if q.Stop != "" {
		lc.C["searches_with_stop_signal"]++
	}
	if q.Ponder != "" {
		lc.C["ponder_searches_"+q.Ponder]++
	}
	if q.SoftTime > 0 {
		lc.C["searches_with_wall_clock_soft_limit"]++
	}
	if q.NoOutput {
		lc.C["searches_on_tiny_tables_without_output"]++
	}
	c.Judge(cs, root, q, &res, same, diff)
}

func short(s board.VerifSnap) string {
	return fmt.Sprintf("stm=%d ep=%d castles=%d fifty=%d full=%d hashes=%d colors=%x/%x", s.STM, s.EnPassant, s.Castles, s.FiftyCnt, s.FullMoves, len(s.Hashes), uint64(s.Colors[0]), uint64(s.Colors[1]))
}

func randRequest(rng *rand.Rand, tt int) Request {
	q := Request{Nodes: -1}
	switch rng.IntN(11) {
	case 8: // wall-clock soft limit (only legality is judged)
		q.SoftTime = 1 + rng.IntN(3)
		q.Nodes = 50000
	case 9: // ponder search that is hit: the node budget applies from then on
		q.Ponder = "hit"
		q.PonderUs = []int{0, 1, 10, 100, 1000}[rng.IntN(5)]
		q.Nodes = 2000 + rng.IntN(20000)
		q.Depth = 1 + rng.IntN(6)
	case 10: // ponder miss: limits are ignored, only the stop signal ends the search
		q.Ponder = "miss"
		q.Stop = "async"
		q.StopUs = []int{0, 10, 100, 1000, 3000}[rng.IntN(5)]
		q.Nodes = 100
	case 0, 1:
		q.Depth = 1 + rng.IntN(6)
		q.Nodes = 60000 // safety cap, normally not reached at these depths? it may: then the search is simply aborted
	case 2:
		q.SoftNodes = 1 + rng.IntN(3000)
		q.Nodes = 200000
	case 3:
		q.Nodes = rng.IntN(3000)
	case 4:
		q.Nodes = rng.IntN(20000)
		q.Depth = 1 + rng.IntN(10)
	case 5:
		q.Stop = "preclosed"
		q.Nodes = 5000
	case 6:
		q.Stop = "async"
		q.StopUs = []int{0, 1, 5, 20, 100, 500, 2000}[rng.IntN(7)]
		q.Nodes = 30000
	default:
		q.Depth = 1
	}
	if tt < 32000 {
		q.NoOutput = true
	}
	return q
}

// Go runs the campaign.
func (c *Campaign) Go() {
	r := c.R
	nw := ev.Workers()
	lcs := make([]*ev.Local, nw)
	for i := range lcs {
		lcs[i] = ev.NewLocal()
	}
	// roots whose castling right is there but castling is not available get extra weight: whether a
	// planted castling encoding ends up as the answer depends on it scoring best
	kinds := append(append([]string(nil), RootKinds...), "blocked-castle", "blocked-castle", "blocked-castle", "blocked-castle")
	total := c.Roots * len(kinds)
	ev.Parallel(total, func(wk, i int) {
		rng := r.RNG(c.Stream+"-mixed", i)
		root, kind := RandomRoot(rng, kinds[i%len(kinds)])
		tt := ttSizes[rng.IntN(len(ttSizes))]
		s := search.New(tt)
		cs := &Case{Kind: "mixed", RootKind: kind, Start: root.Start.FEN(), Moves: root.MoveNames(), TTBytes: tt, Params: c.Params}
		if rng.IntN(2) == 0 {
			warmUp(s, cs, &root, rng, tt, lcs[wk])
		}
		if rng.IntN(3) == 0 || kind == "castle" || kind == "blocked-castle" {
			cs.Poison = makePoison(rng, &root)
			if kind == "castle" || kind == "blocked-castle" {
				// a castling encoding of the side to move is planted for the root hash (one entry per
				// key survives): only a genuine castling move may be played
				mv := 4<<6 | 2
				if rng.IntN(3) == 0 {
					mv = 4<<6 | 6
				}
				if !root.Pos.White {
					mv += 56<<6 | 56
				}
				cs.Poison = []PoisonEntry{{Move: mv, Depth: 1 + rng.IntN(10), Value: []int{300, 900, 9990}[rng.IntN(3)], Type: 1 + rng.IntN(2)}}
			}
		}
		n := 2 + rng.IntN(6)
		for k := 0; k < n; k++ {
			q := randRequest(rng, tt)
			if len(cs.Poison) > 0 && k < 2 {
				// the planted move is tried first: a search that runs out of budget (or depth) right
				// away returns whatever the first move of the root was
				q = Request{Nodes: 2 + rng.IntN(60), NoOutput: tt < 32000}
				if k == 1 {
					q = Request{Depth: 1, Nodes: 20000, NoOutput: tt < 32000}
				}
			}
			c.one(cs, &root, s, q, lcs[wk], wk)
		}
		// the same engine must be searchable again on a fresh position, with a legal result
		fr, fk := RandomRoot(rng, "fresh")
		cs2 := &Case{Kind: "follow-up", RootKind: fk, Start: fr.Start.FEN(), TTBytes: tt, Requests: append([]Request(nil), cs.Requests...), Params: c.Params}
		q := Request{Depth: 2, Nodes: 20000, NoOutput: tt < 32000}
		c.one(cs2, &fr, s, q, lcs[wk], wk)
		r.DistinctStr(root.Pos.Key() + fmt.Sprint(len(root.Moves), tt))
		if i%97 == 0 {
			r.Sample(map[string]any{"kind": "mixed", "root_kind": kind, "root": root.Pos.FEN(), "history_plies": len(root.Moves), "occurrence": root.Count, "tt_bytes": tt, "requests": cs.Requests})
		}
		r.Merge(lcs[wk])
	})
	// what an aborted search leaves behind: on roots with one or two legal moves every hard budget
	// k = 1..40 (the abort lands somewhere in the subtree of the only reply, mostly inside
	// quiescence) is followed at once by a small complete search on the same engine, which must
	// still find the move
	ev.Parallel(c.Roots*2, func(wk, i int) {
		rng := r.RNG(c.Stream+"-abort-then-search", i)
		// exactly one legal move, and the opponent can capture something after it (so that there
		// is a quiescence tree below the reply for the abort to land in)
		var root Root
		var kind string
		found := false
		for try := 0; try < 60 && !found; try++ {
			root, kind = RandomRoot(rng, []string{"few-replies", "in-check", "dense", "in-check"}[(i+try)%4])
			l := root.Pos.Legal()
			if len(l) != 1 || root.Final() {
				continue
			}
			nx := root.Pos.Make(l[0])
			for _, m := range nx.Legal() {
				if nx.Sq[m.To()] != 0 {
					found = true
					break
				}
			}
		}
		if !found {
			return
		}
		lcs[wk].C["abort_then_search_roots"]++
		tt := []int{32000, 1 << 20}[rng.IntN(2)]
		s := search.New(tt)
		cs := &Case{Kind: "abort-then-search", RootKind: kind, Start: root.Start.FEN(), Moves: root.MoveNames(), TTBytes: tt, Params: c.Params}
		if i%2 == 0 {
			// an exact entry of some other position under the root key: the first iteration takes its
			// value, the aspiration window of the next one is narrow and far from the truth
			cs.Poison = []PoisonEntry{{Move: rng.IntN(1 << 12), Depth: 1 + rng.IntN(8), Value: []int{-900, -300, 0, 300, 900, 1200}[rng.IntN(6)], Type: 2}}
		}
		for k := 1; k <= 40; k++ {
			// nothing an earlier complete search stored may shield the subtree
			s.Clear()
			cs.Requests = nil
			c.one(cs, &root, s, Request{Nodes: k}, lcs[wk], wk)
			c.one(cs, &root, s, Request{Depth: 1 + k%2, Nodes: 20000}, lcs[wk], wk)
			lcs[wk].C["searches_right_after_an_aborted_search"]++
		}
		r.DistinctStr("ats" + root.Pos.Key())
		r.Merge(lcs[wk])
	})
	// the far ends of the search's own dimensions: iteration depths up to the ply limit with
	// variations of 40-60 moves (only bare endgames get there within a node budget), and roots with
	// more legal moves than any table indexed by the move count expects (several queens)
	ev.Parallel(c.Deep, func(wk, i int) {
		rng := r.RNG(c.Stream+"-deep", i)
		root, kind, ok := deepRoot(rng, i)
		if !ok {
			return
		}
		tt := []int{1 << 20, 8 << 20, 16 << 20}[rng.IntN(3)]
		s := search.New(tt)
		cs := &Case{Kind: "deep", RootKind: kind, Start: root.Start.FEN(), TTBytes: tt, Params: c.Params}
		q := Request{Depth: 40 + rng.IntN(24), Nodes: c.DeepNodes}
		if kind == "wide" {
			q = Request{Depth: 2 + rng.IntN(4), Nodes: c.DeepNodes / 10}
		}
		c.one(cs, &root, s, q, lcs[wk], wk)
		lcs[wk].C["deep_or_wide_searches"]++
		r.DistinctStr("deep" + root.Pos.Key())
		if i%5 == 0 {
			r.Sample(map[string]any{"kind": "deep", "root_kind": kind, "root": root.Pos.FEN(), "request": q})
		}
		r.Merge(lcs[wk])
	})
	// abort sweep: every k in [0,K] is one possible arrival time of stop / hard timeout
	ev.Parallel(c.Sweeps, func(wk, i int) {
		rng := r.RNG(c.Stream+"-sweep", i)
		root, kind := RandomRoot(rng, RootKinds[i%len(RootKinds)])
		tt := []int{32000, 1 << 20, 64}[rng.IntN(3)]
		s := search.New(tt)
		cs := &Case{Kind: "abort-sweep", RootKind: kind, Start: root.Start.FEN(), Moves: root.MoveNames(), TTBytes: tt, Params: c.Params}
		if rng.IntN(3) == 0 {
			warmUp(s, cs, &root, rng, tt, lcs[wk])
		}
		if rng.IntN(4) == 0 {
			cs.Poison = makePoison(rng, &root)
		}
		clearEach := rng.IntN(2) == 0 && cs.WarmFEN == ""
		for k := 0; k <= c.SweepK; k++ {
			if clearEach {
				s.Clear()
				cs.Requests = cs.Requests[:0]
			}
			c.one(cs, &root, s, Request{Nodes: k, NoOutput: tt < 32000}, lcs[wk], wk)
			lcs[wk].C["abort_sweep_points"]++
		}
		// sparse continuation of the sweep: abort points deep inside later iterations (aspiration
		// re-searches, null-move subtrees) where the dense range does not reach
		if !root.Final() {
			for j := 0; j < min(c.SweepK/2, 400); j++ {
				k := c.SweepK + 1 + rng.IntN(min(40*c.SweepK, 40000))
				c.one(cs, &root, s, Request{Nodes: k, NoOutput: tt < 32000}, lcs[wk], wk)
				lcs[wk].C["abort_sweep_sparse_deep_points"]++
			}
		}
		r.DistinctStr("sweep" + root.Pos.Key() + fmt.Sprint(len(root.Moves), tt))
		if i%37 == 0 {
			r.Sample(map[string]any{"kind": "abort-sweep", "root_kind": kind, "root": root.Pos.FEN(), "history_plies": len(root.Moves), "K": c.SweepK, "tt_bytes": tt, "clear_between": clearEach})
		}
		r.Merge(lcs[wk])
	})
}

// warmUp lets the engine search another position first (a PV-producing depth-4 search).
func warmUp(s *search.Search, cs *Case, root *Root, rng *rand.Rand, tt int, lc *ev.Local) {
	fr, _ := RandomRoot(rng, "fresh")
	if rng.IntN(2) == 0 || cs.RootKind == "locked" {
		// a sibling of the root: the same position with one to three men removed. Its move lists
		// have almost the same shape as the root's, so whatever per-slot state the search keeps
		// between requests lines up with the root's own moves.
		p := root.Pos
		p.EP = -1
		var men []int
		for sq, v := range p.Sq {
			if v != 0 && v != ref.K && v != -ref.K {
				men = append(men, sq)
			}
		}
		if cs.RootKind == "locked" {
			// one enemy piece less: the root has exactly one capture more than its sibling
			var pcs []int
			for _, sq := range men {
				if v := p.Sq[sq]; (v < -1 && p.White) || (v > 1 && !p.White) {
					pcs = append(pcs, sq)
				}
			}
			if len(pcs) > 0 {
				men = pcs
			}
		}
		for i := 1 + rng.IntN(2); i > 0 && len(men) > 0; i-- {
			if cs.RootKind == "locked" {
				i = 1
			}
			p.Sq[men[rng.IntN(len(men))]] = 0
		}
		if p.Valid() && p != root.Pos {
			p.Half = 0
			fr = NewRoot(p.Normalised(), nil)
			lc.C["engines_warmed_up_on_a_sibling_of_the_root"]++
		}
	}
	if fr.Final() {
		return
	}
	b, err := fr.Board()
	if err != nil {
		return
	}
	cs.WarmFEN = fr.Pos.FEN()
	Exec(s, b, Request{Depth: 4, Nodes: 30000, NoOutput: tt < 32000})
	lc.C["engines_warmed_up_on_another_root"]++
}

// Replay re-executes a recorded case: a fresh engine of the recorded size, the recorded requests
// in order on the recorded root (the last one is judged).
func Replay(c *Case, judge Judge) {
	start := ref.MustFEN(c.Start)
	var ms []ref.Move
	cur := start
	for _, name := range c.Moves {
		m, ok := findMove(&cur, name)
		if !ok {
			panic("replay: illegal history move " + name)
		}
		ms = append(ms, m)
		cur = cur.Make(m)
		cur = cur.Normalised()
	}
	root := NewRoot(start, ms)
	s := search.New(c.TTBytes)
	if c.WarmFEN != "" {
		if wb, err := board.FromFEN(c.WarmFEN); err == nil {
			Exec(s, wb, Request{Depth: 4, Nodes: 30000, NoOutput: c.TTBytes < 32000})
		}
	}
	for i, q := range c.Requests {
		b, _ := root.Board()
		if len(c.Poison) > 0 {
			plant(s, &root, c.Poison)
		}
		before := b.VerifSnapshot()
		res := Exec(s, b, q)
		after := b.VerifSnapshot()
		fmt.Printf("replay request %d %+v -> move %v ponder %v score %d nodes %d\n", i, q, res.Move, res.Ponder, res.Score, res.Nodes)
		if i == len(c.Requests)-1 {
			for _, l := range res.Lines {
				fmt.Println("   ", l)
			}
			cc := *c
			judge(&cc, &root, q, &res, after.Equal(before), fmt.Sprintf("before %s\nafter  %s", short(before), short(after)))
		}
	}
}

// deepRoot builds a root for the deep/wide workload: K+P v K, K+P v K+P with rammed or passed
// pawns, K+R v K ("bare": the search reaches depth 40-60 in a few million nodes), or a position
// with five to nine queens of the side to move and 100+ legal moves ("wide").
func deepRoot(rng *rand.Rand, i int) (Root, string, bool) {
	for try := 0; try < 400; try++ {
		var p ref.Pos
		p.EP = -1
		p.Full = 1 + rng.IntN(80)
		p.Half = rng.IntN(20)
		p.White = rng.IntN(2) == 0
		put := func(v int8) bool {
			for k := 0; k < 50; k++ {
				sq := rng.IntN(64)
				if (v == ref.P || v == -ref.P) && (sq < 8 || sq >= 56) {
					continue
				}
				if p.Sq[sq] == 0 {
					p.Sq[sq] = v
					return true
				}
			}
			return false
		}
		put(ref.K)
		put(-ref.K)
		kind := "bare"
		if i%4 == 3 {
			kind = "wide"
			sg := int8(1)
			if !p.White {
				sg = -1
			}
			for n := 5 + rng.IntN(5); n > 0; n-- {
				put(sg * ref.Q)
			}
			for n := rng.IntN(3); n > 0; n-- {
				put(sg * int8(2+rng.IntN(3)))
			}
			for n := rng.IntN(4); n > 0; n-- {
				put(-sg * int8(1+rng.IntN(4)))
			}
		} else {
			switch rng.IntN(4) {
			case 0:
				put(ref.P)
			case 1:
				put(ref.P)
				put(-ref.P)
			case 2:
				put([]int8{ref.R, -ref.R}[rng.IntN(2)])
			default:
				put(ref.P)
				put(ref.P)
				put(-ref.P)
			}
		}
		if !p.Valid() {
			continue
		}
		n := len(p.Legal())
		if n == 0 || (kind == "wide" && n < 102) {
			continue
		}
		root := NewRoot(p.Normalised(), nil)
		if root.Final() {
			continue
		}
		return root, kind, true
	}
	return Root{}, "", false
}
