// Package strace runs the real search while recording its trace (lines written to Output and
// return values) and provides the offline trace checkers shared by C06, C07 and C08.
package strace

import (
	"fmt"
	"strconv"
	"strings"

	"github.com/paulsonkoly/chess-3/board"
	"github.com/paulsonkoly/chess-3/chess"
	"github.com/paulsonkoly/chess-3/move"
	"github.com/paulsonkoly/chess-3/search"

	"verif/harness/ref"
)

// Root is a search root with its game history.
type Root struct {
	Start ref.Pos
	Moves []ref.Move
	Pos   ref.Pos // position after the moves (normalised)
	Count int     // occurrences of Pos in the history including now
}

// NewRoot replays moves from start in the reference model.
func NewRoot(start ref.Pos, moves []ref.Move) Root {
	cnt := map[string]int{start.Key(): 1}
	cur := start
	for _, m := range moves {
		cur = cur.Make(m)
		cur = cur.Normalised()
		cnt[cur.Key()]++
	}
	return Root{Start: start, Moves: moves, Pos: cur, Count: cnt[cur.Key()]}
}

// Board builds the engine board for the root by FromFEN + MakeMove (history included).
func (r *Root) Board() (*board.Board, error) {
	b, err := board.FromFEN(r.Start.FEN())
	if err != nil {
		return nil, err
	}
	for _, m := range r.Moves {
		b.MakeMove(move.Move(m))
	}
	return b, nil
}

// Final reports whether the root is final: no legal move, clock >= 100 or third occurrence.
func (r *Root) Final() bool {
	return len(r.Pos.Legal()) == 0 || r.Pos.Half >= 100 || r.Count >= 3
}

// MoveNames renders the history.
func (r *Root) MoveNames() []string {
	s := make([]string, len(r.Moves))
	for i, m := range r.Moves {
		s[i] = m.String()
	}
	return s
}

// Info is one parsed info line.
type Info struct {
	Raw      string
	Abort    bool // the short "info depth D nodes N" line written on abort
	Depth    int
	Score    string
	Nodes    int
	Time     int
	HashFull int
	PV       []string
}

// Result is the observable outcome of one search.
type Result struct {
	Score  chess.Score
	Move   move.Move
	Ponder move.Move
	Nodes  int
	Lines  []string
	Infos  []Info
	Bad    []string // lines that do not parse under the info grammar
}

type recorder struct{ buf []byte }

func (w *recorder) Write(p []byte) (int, error) { w.buf = append(w.buf, p...); return len(p), nil }

// Run executes s.Go on b with the given options, recording the output.
func Run(s *search.Search, b *board.Board, opts ...search.Option) Result {
	var rec recorder
	var cnt search.Counters
	all := append([]search.Option{search.WithOutput(&rec), search.WithCounters(&cnt)}, opts...)
	sc, mv, pm := s.Go(b, all...)
	res := Result{Score: sc, Move: mv, Ponder: pm, Nodes: cnt.Nodes}
	res.Lines = SplitLines(string(rec.buf))
	res.Infos, res.Bad = ParseInfos(res.Lines)
	return res
}

// SplitLines splits on newlines dropping the trailing empty piece.
func SplitLines(s string) []string {
	if s == "" {
		return nil
	}
	l := strings.Split(s, "\n")
	if l[len(l)-1] == "" {
		l = l[:len(l)-1]
	}
	return l
}

// ParseInfos parses lines under the info grammar.
func ParseInfos(lines []string) (infos []Info, bad []string) {
	for _, l := range lines {
		if !strings.HasPrefix(l, "info ") {
			bad = append(bad, l)
			continue
		}
		in, ok := ParseInfo(l)
		if !ok {
			bad = append(bad, l)
			continue
		}
		infos = append(infos, in)
	}
	return
}

// ParseInfo parses "info depth D score (cp N|mate N) nodes N time N hashfull N pv m1 m2 ..." and
// the abort form "info depth D nodes N".
func ParseInfo(l string) (Info, bool) {
	f := strings.Fields(l)
	in := Info{Raw: l}
	num := func(s string) (int, bool) { v, err := strconv.Atoi(s); return v, err == nil }
	if len(f) < 5 || f[0] != "info" || f[1] != "depth" {
		return in, false
	}
	var ok bool
	if in.Depth, ok = num(f[2]); !ok {
		return in, false
	}
	if f[3] == "nodes" {
		if len(f) != 5 {
			return in, false
		}
		in.Abort = true
		in.Nodes, ok = num(f[4])
		return in, ok
	}
	if f[3] != "score" || len(f) < 13 || (f[4] != "cp" && f[4] != "mate") {
		return in, false
	}
	if _, ok = num(f[5]); !ok {
		return in, false
	}
	in.Score = f[4] + " " + f[5]
	if f[6] != "nodes" || f[8] != "time" || f[10] != "hashfull" || f[12] != "pv" {
		return in, false
	}
	if in.Nodes, ok = num(f[7]); !ok {
		return in, false
	}
	if in.Time, ok = num(f[9]); !ok {
		return in, false
	}
	if in.HashFull, ok = num(f[11]); !ok {
		return in, false
	}
	in.PV = f[13:]
	for _, m := range in.PV {
		if !moveShape(m) {
			return in, false
		}
	}
	return in, true
}

func moveShape(m string) bool {
	if len(m) != 4 && len(m) != 5 {
		return false
	}
	if m[0] < 'a' || m[0] > 'h' || m[2] < 'a' || m[2] > 'h' || m[1] < '1' || m[1] > '8' || m[3] < '1' || m[3] > '8' {
		return false
	}
	return len(m) == 4 || strings.ContainsRune("qrbn", rune(m[4]))
}

// StripTime renders an info line without its time field (wall-clock is not an observable of C08).
func (in Info) StripTime() string {
	if in.Abort {
		return in.Raw
	}
	return fmt.Sprintf("info depth %d score %s nodes %d hashfull %d pv %s", in.Depth, in.Score, in.Nodes, in.HashFull, strings.Join(in.PV, " "))
}

// Issue is one finding of a trace checker.
type Issue struct {
	Sig    string
	Detail string
}

// findMove looks a move name up among the legal moves.
func findMove(p *ref.Pos, name string) (ref.Move, bool) {
	for _, m := range p.Legal() {
		if m.String() == name {
			return m, true
		}
	}
	return 0, false
}

// CheckC07 applies the C07 trace specification to one search.
func CheckC07(root *Root, res *Result) (issues []Issue, stats map[string]int) {
	stats = map[string]int{}
	for _, b := range res.Bad {
		issues = append(issues, Issue{"output-line-not-in-info-grammar", fmt.Sprintf("line %q", b)})
	}
	lastDepth, lastNodes := -1, -1
	lastPV := []string(nil)
	for _, in := range res.Infos {
		if in.Depth <= lastDepth {
			issues = append(issues, Issue{"reported-depth-not-increasing", fmt.Sprintf("depth %d after depth %d (%q)", in.Depth, lastDepth, in.Raw)})
		}
		if in.Nodes < lastNodes {
			issues = append(issues, Issue{"reported-nodes-decreasing", fmt.Sprintf("nodes %d after %d (%q)", in.Nodes, lastNodes, in.Raw)})
		}
		lastDepth, lastNodes = in.Depth, in.Nodes
		if in.Abort {
			stats["abort_lines"]++
			continue
		}
		stats["info_lines"]++
		if len(in.PV) == 0 {
			stats["empty_pv_lines"]++
			continue
		}
		stats["pv_lines"]++
		stats["pv_moves"] += len(in.PV)
		if len(in.PV) > stats["longest_pv"] {
			stats["longest_pv"] = len(in.PV)
		}
		cur := root.Pos
		for i, name := range in.PV {
			m, ok := findMove(&cur, name)
			if !ok {
				issues = append(issues, Issue{"pv-move-not-legal", fmt.Sprintf("pv %v: move %d (%s) is not legal in %s (%q)", in.PV, i+1, name, cur.FEN(), in.Raw)})
				break
			}
			cur = cur.Make(m)
			cur = cur.Normalised()
		}
		lastPV = in.PV
	}
	legalRoot := map[string]bool{}
	for _, m := range root.Pos.Legal() {
		legalRoot[m.String()] = true
	}
	if lastPV != nil {
		if res.Move.String() != lastPV[0] {
			issues = append(issues, Issue{"returned-move-differs-from-last-pv", fmt.Sprintf("returned %v, most recent non-empty pv %v", res.Move, lastPV)})
		}
	} else if res.Move != 0 {
		stats["returned_move_without_any_pv"]++
		if !legalRoot[res.Move.String()] {
			issues = append(issues, Issue{"fallback-move-not-legal", fmt.Sprintf("no pv was reported and the returned move %v is not legal in %s", res.Move, root.Pos.FEN())})
		}
	}
	if res.Ponder != 0 {
		stats["ponder_moves"]++
		ok := false
		if m, found := findMove(&root.Pos, res.Move.String()); found && res.Move != 0 {
			nx := root.Pos.Make(m)
			nx = nx.Normalised()
			_, ok = findMove(&nx, res.Ponder.String())
		}
		if !ok {
			issues = append(issues, Issue{"ponder-move-not-legal", fmt.Sprintf("ponder %v is not legal after %v in %s", res.Ponder, res.Move, root.Pos.FEN())})
		}
	}
	return
}

// CheckC06 applies the C06 result specification (not the board-unchanged part).
// completed = the search was not aborted (it ended by a depth or soft limit).
func CheckC06(root *Root, res *Result, completed bool) (issues []Issue) {
	legal := root.Pos.Legal()
	isLegal := false
	for _, m := range legal {
		if move.Move(m) == res.Move {
			isLegal = true
		}
	}
	final := root.Final()
	switch {
	case res.Move == 0:
		if !final {
			issues = append(issues, Issue{"null-move-on-non-final-root", fmt.Sprintf("root %s (history %d plies, occurrence %d, clock %d, %d legal moves) is not final but the search returned the null move", root.Pos.FEN(), len(root.Moves), root.Count, root.Pos.Half, len(legal))})
		}
	case !isLegal:
		issues = append(issues, Issue{"returned-move-not-legal", fmt.Sprintf("returned %v is not legal in %s", res.Move, root.Pos.FEN())})
	}
	if completed && final {
		mate := len(legal) == 0 && root.Pos.InCheck(root.Pos.White)
		draw := !mate || root.Pos.Half >= 100 || root.Count >= 3
		okScore := (draw && res.Score == 0) || (mate && res.Score == -chess.Inf)
		if res.Move != 0 || !okScore {
			issues = append(issues, Issue{"completed-search-on-final-root", fmt.Sprintf("final root %s (mate=%v clock %d occurrence %d): returned move %v score %d", root.Pos.FEN(), mate, root.Pos.Half, root.Count, res.Move, res.Score)})
		}
	}
	return
}
