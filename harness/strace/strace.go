// Package strace runs the real search while recording its trace (lines written to Output and
// return values) and provides the offline trace checkers shared by C06, C07 and C08.
package strace

import (
	"fmt"
	"strconv"
	"strings"

	"github.com/paulsonkoly/chess-3/board"
	"github.com/paulsonkoly/chess-3/chess"
	"github.com/paulsonkoly/chess-3/move"
	"github.com/paulsonkoly/chess-3/search"

	"verif/harness/conv"
	"verif/harness/ref"
)

// Root is a search root with its game history.
type Root struct {
	Start ref.Pos
	Moves []ref.Move
	Pos   ref.Pos // position after the moves (normalised)
	Count int     // occurrences of Pos in the history including now
}

// NewRoot replays moves from start in the reference model.
func NewRoot(start ref.Pos, moves []ref.Move) Root {
	cnt := map[string]int{start.Key(): 1}
	cur := start
	for _, m := range moves {
		cur = cur.Make(m)
		cur = cur.Normalised()
		cnt[cur.Key()]++
	}
	return Root{Start: start, Moves: moves, Pos: cur, Count: cnt[cur.Key()]}
}

// Board builds the engine board for the root by FromFEN + MakeMove (history included).
func (r *Root) Board() (*board.Board, error) {
	b, err := board.FromFEN(r.Start.FEN())
	if err != nil {
		return nil, err
	}
	for _, m := range r.Moves {
		b.MakeMove(conv.M(m))
	}
	return b, nil
}

// Final reports whether the root is final: no legal move, clock >= 100 or third occurrence.
func (r *Root) Final() bool {
	return len(r.Pos.Legal()) == 0 || r.Pos.Half >= 100 || r.Count >= 3
}

// MoveNames renders the history.
func (r *Root) MoveNames() []string {
	s := make([]string, len(r.Moves))
	for i, m := range r.Moves {
		s[i] = m.String()
	}
	return s
}

// Info is one parsed info line.
type Info struct {
	Raw                          string
	Abort                        bool // the short "info depth D nodes N" line written on abort
	Depth                        int
	Score                        string
	Nodes                        int
	Time                         int
	HashFull                     int
	PV                           []string
	HasDepth, HasNodes, HasScore bool
	Text                         bool     // an `info string ...` line
	kept                         []string // the tokens that are not functions of the wall clock
}

// Result is the observable outcome of one search.
type Result struct {
	Score  chess.Score
	Move   move.Move
	Ponder move.Move
	Nodes  int
	Lines  []string
	Infos  []Info
	Bad    []string // lines that do not parse under the info grammar
}

type recorder struct{ buf []byte }

func (w *recorder) Write(p []byte) (int, error) { w.buf = append(w.buf, p...); return len(p), nil }

// Run executes s.Go on b with the given options, recording the output.
func Run(s *search.Search, b *board.Board, opts ...search.Option) Result {
	var rec recorder
	var cnt search.Counters
	all := append([]search.Option{search.WithOutput(&rec), search.WithCounters(&cnt)}, opts...)
	sc, mv, pm := s.Go(b, all...)
	res := Result{Score: sc, Move: mv, Ponder: pm, Nodes: cnt.Nodes}
	res.Lines = SplitLines(string(rec.buf))
	res.Infos, res.Bad = ParseInfos(res.Lines)
	return res
}

// SplitLines splits on newlines dropping the trailing empty piece.
func SplitLines(s string) []string {
	if s == "" {
		return nil
	}
	l := strings.Split(s, "\n")
	if l[len(l)-1] == "" {
		l = l[:len(l)-1]
	}
	return l
}

// ParseInfos parses lines under the UCI info grammar. `info string ...` lines carry free text and
// are neither search reports nor malformed: they are skipped.
func ParseInfos(lines []string) (infos []Info, bad []string) {
	for _, l := range lines {
		if !strings.HasPrefix(l, "info ") {
			bad = append(bad, l)
			continue
		}
		in, ok := ParseInfo(l)
		if !ok {
			bad = append(bad, l)
			continue
		}
		if in.Text {
			continue
		}
		infos = append(infos, in)
	}
	return
}

// intKeys are the UCI info keys that take one integer.
var intKeys = map[string]bool{"depth": true, "seldepth": true, "time": true, "nodes": true, "multipv": true,
	"currmovenumber": true, "hashfull": true, "nps": true, "tbhits": true, "sbhits": true, "cpuload": true}

// ParseInfo parses one line of the UCI info grammar: `info` followed by key/value groups in any
// order - integer keys, `score (cp|mate) N [lowerbound|upperbound]`, `currmove m`, `pv m1 m2 ...`
// (also refutation/currline; the move list runs to the end of the line), `string <free text>`.
// Which keys a report carries is the engine's choice; a report without score and pv is the short
// form written when the search is aborted.
func ParseInfo(l string) (Info, bool) {
	f := strings.Fields(l)
	in := Info{Raw: l}
	if len(f) < 2 || f[0] != "info" {
		return in, false
	}
	seen := map[string]bool{}
	hasScore, hasPV := false, false
	for i := 1; i < len(f); {
		k := f[i]
		if seen[k] {
			return in, false
		}
		seen[k] = true
		switch {
		case k == "string":
			in.Text = len(seen) == 1
			in.kept = append(in.kept, f[i:]...)
			i = len(f)
		case intKeys[k]:
			if i+1 >= len(f) {
				return in, false
			}
			v, err := strconv.Atoi(f[i+1])
			if err != nil || v < 0 {
				return in, false
			}
			switch k {
			case "depth":
				in.Depth = v
			case "nodes":
				in.Nodes = v
			case "time":
				in.Time = v
			case "hashfull":
				in.HashFull = v
			}
			if k != "time" && k != "nps" && k != "cpuload" {
				in.kept = append(in.kept, f[i], f[i+1])
			}
			i += 2
		case k == "score":
			if i+2 >= len(f) || (f[i+1] != "cp" && f[i+1] != "mate") {
				return in, false
			}
			if _, err := strconv.Atoi(f[i+2]); err != nil {
				return in, false
			}
			in.Score = f[i+1] + " " + f[i+2]
			hasScore = true
			in.kept = append(in.kept, f[i:i+3]...)
			i += 3
			if i < len(f) && (f[i] == "lowerbound" || f[i] == "upperbound") {
				in.kept = append(in.kept, f[i])
				i++
			}
		case k == "currmove":
			if i+1 >= len(f) || !moveShape(f[i+1]) {
				return in, false
			}
			in.kept = append(in.kept, f[i], f[i+1])
			i += 2
		case k == "pv" || k == "refutation" || k == "currline":
			rest := f[i+1:]
			if k == "currline" && len(rest) > 0 {
				if _, err := strconv.Atoi(rest[0]); err == nil {
					rest = rest[1:]
				}
			}
			for _, m := range rest {
				if !moveShape(m) {
					return in, false
				}
			}
			if k == "pv" {
				in.PV = rest
				hasPV = true
			}
			in.kept = append(in.kept, f[i:]...)
			i = len(f)
		default:
			return in, false
		}
	}
	in.HasDepth, in.HasNodes, in.HasScore = seen["depth"], seen["nodes"], hasScore
	in.Abort = !in.Text && !hasScore && !hasPV && !seen["currmove"] && seen["nodes"]
	return in, true
}

func moveShape(m string) bool {
	if len(m) != 4 && len(m) != 5 {
		return false
	}
	if m[0] < 'a' || m[0] > 'h' || m[2] < 'a' || m[2] > 'h' || m[1] < '1' || m[1] > '8' || m[3] < '1' || m[3] > '8' {
		return false
	}
	return len(m) == 4 || strings.ContainsRune("qrbn", rune(m[4]))
}

// StripTime renders an info line without the fields that are functions of the wall clock (time,
// nps, cpuload): wall-clock is not an observable of C08. Everything else is kept, in order.
func (in Info) StripTime() string {
	return "info " + strings.Join(in.kept, " ")
}

// Issue is one finding of a trace checker.
type Issue struct {
	Sig    string
	Detail string
}

// findMove looks a move name up among the legal moves.
func findMove(p *ref.Pos, name string) (ref.Move, bool) {
	for _, m := range p.Legal() {
		if m.String() == name {
			return m, true
		}
	}
	return 0, false
}

// CheckC07 applies the C07 trace specification to one search.
func CheckC07(root *Root, res *Result) (issues []Issue, stats map[string]int) {
	stats = map[string]int{}
	for _, b := range res.Bad {
		issues = append(issues, Issue{"output-line-not-in-info-grammar", fmt.Sprintf("line %q", b)})
	}
	lastDepth, lastNodes := -1, -1
	lastPV := []string(nil)
	for _, in := range res.Infos {
		// sanity of the iteration reports (lines that carry a score): depths do not go back, node
		// counts do not go back on any line that has one. Other lines (currmove ...) are free.
		if in.HasScore && in.HasDepth {
			if in.Depth < lastDepth {
				issues = append(issues, Issue{"reported-depth-not-increasing", fmt.Sprintf("depth %d after depth %d (%q)", in.Depth, lastDepth, in.Raw)})
			}
			lastDepth = in.Depth
		}
		if in.HasNodes {
			if in.Nodes < lastNodes {
				issues = append(issues, Issue{"reported-nodes-decreasing", fmt.Sprintf("nodes %d after %d (%q)", in.Nodes, lastNodes, in.Raw)})
			}
			lastNodes = in.Nodes
		}
		if !in.HasScore && !in.Abort && len(in.PV) == 0 {
			continue
		}
		if in.Abort {
			stats["abort_lines"]++
			continue
		}
		stats["info_lines"]++
		if len(in.PV) == 0 {
			stats["empty_pv_lines"]++
			continue
		}
		stats["pv_lines"]++
		stats["pv_moves"] += len(in.PV)
		if len(in.PV) > stats["longest_pv"] {
			stats["longest_pv"] = len(in.PV)
		}
		cur := root.Pos
		for i, name := range in.PV {
			m, ok := findMove(&cur, name)
			if !ok {
				issues = append(issues, Issue{"pv-move-not-legal", fmt.Sprintf("pv %v: move %d (%s) is not legal in %s (%q)", in.PV, i+1, name, cur.FEN(), in.Raw)})
				break
			}
			cur = cur.Make(m)
			cur = cur.Normalised()
		}
		lastPV = in.PV
	}
	legalRoot := map[string]bool{}
	for _, m := range root.Pos.Legal() {
		legalRoot[m.String()] = true
	}
	if lastPV != nil {
		if res.Move.String() != lastPV[0] {
			issues = append(issues, Issue{"returned-move-differs-from-last-pv", fmt.Sprintf("returned %v, most recent non-empty pv %v", res.Move, lastPV)})
		}
	} else if res.Move != 0 {
		stats["returned_move_without_any_pv"]++
		if !legalRoot[res.Move.String()] {
			issues = append(issues, Issue{"fallback-move-not-legal", fmt.Sprintf("no pv was reported and the returned move %v is not legal in %s", res.Move, root.Pos.FEN())})
		}
	}
	if res.Ponder != 0 {
		stats["ponder_moves"]++
		ok := false
		if m, found := findMove(&root.Pos, res.Move.String()); found && res.Move != 0 {
			nx := root.Pos.Make(m)
			nx = nx.Normalised()
			_, ok = findMove(&nx, res.Ponder.String())
		}
		if !ok {
			issues = append(issues, Issue{"ponder-move-not-legal", fmt.Sprintf("ponder %v is not legal after %v in %s", res.Ponder, res.Move, root.Pos.FEN())})
		}
	}
	return
}

// CheckC06 applies the C06 result specification (not the board-unchanged part).
// completed = the search was not aborted (it ended by a depth or soft limit).
func CheckC06(root *Root, res *Result, completed bool) (issues []Issue) {
	legal := root.Pos.Legal()
	isLegal := false
	for _, m := range legal {
		if conv.M(m) == res.Move {
			isLegal = true
		}
	}
	final := root.Final()
	switch {
	case res.Move == 0:
		if !final {
			issues = append(issues, Issue{"null-move-on-non-final-root", fmt.Sprintf("root %s (history %d plies, occurrence %d, clock %d, %d legal moves) is not final but the search returned the null move", root.Pos.FEN(), len(root.Moves), root.Count, root.Pos.Half, len(legal))})
		}
	case !isLegal:
		issues = append(issues, Issue{"returned-move-not-legal", fmt.Sprintf("returned %v is not legal in %s", res.Move, root.Pos.FEN())})
	}
	if completed && final {
		mate := len(legal) == 0 && root.Pos.InCheck(root.Pos.White)
		draw := !mate || root.Pos.Half >= 100 || root.Count >= 3
		okScore := (draw && res.Score == 0) || (mate && res.Score == -chess.Inf)
		if res.Move != 0 || !okScore {
			issues = append(issues, Issue{"completed-search-on-final-root", fmt.Sprintf("final root %s (mate=%v clock %d occurrence %d): returned move %v score %d", root.Pos.FEN(), mate, root.Pos.Half, root.Count, res.Move, res.Score)})
		}
	}
	return
}
