package c06

import (
	"fmt"
	"math/rand/v2"
	"strconv"
	"strings"
	"testing"
	"time"

	"github.com/paulsonkoly/chess-3/board"
	"github.com/paulsonkoly/chess-3/params"

	"verif/harness/eng"
	"verif/harness/ev"
	"verif/harness/ref"
	"verif/harness/strace"
)

type uciWitness struct {
	Kind  string   `json:"kind"`
	Start string   `json:"start_fen"`
	Moves []string `json:"moves"`
	Go    string   `json:"go_command"`
}

// randomParams sets every spsa tunable to a random in-range value (spsa builds only).
func randomParams(rng *rand.Rand) []string {
	var set []string
	for _, l := range strings.Split(params.UCIOptions(), "\n") {
		f := strings.Fields(l)
		// option name X type spin default D min A max B
		if len(f) != 11 {
			continue
		}
		lo, _ := strconv.Atoi(f[8])
		hi, _ := strconv.Atoi(f[10])
		v := lo + rng.IntN(hi-lo+1)
		if err := params.Set(f[2], v); err != nil {
			panic(err)
		}
		set = append(set, fmt.Sprintf("%s=%d", f[2], v))
	}
	return set
}

func judge(r *ev.Run) strace.Judge {
	return func(c *strace.Case, root *strace.Root, q strace.Request, res *strace.Result, same bool, diff string) {
		if !same {
			r.Violation("C06:board-changed-by-search:"+c.Kind, c, fmt.Sprintf("root %s request %+v: the position object differs after Go returned\n%s", root.Pos.FEN(), q, diff))
		}
		for _, is := range strace.CheckC06(root, res, q.Completed(res)) {
			r.Violation("C06:"+is.Sig+":"+c.Kind, c, fmt.Sprintf("request %+v: %s", q, is.Detail))
		}
		if q.Nodes >= 0 && res.Nodes > q.Nodes { // also while pondering: the counter stops at the budget
			r.Violation("C06:node-budget-exceeded", c, fmt.Sprintf("hard budget %d, counted %d", q.Nodes, res.Nodes))
		}
		if res.Move == 0 {
			r.Count("null_move_results", 1)
		}
		if root.Final() {
			r.Count("searches_on_final_roots", 1)
			if q.Completed(res) {
				r.Count("completed_searches_on_final_roots", 1)
			}
		}
		if !q.Completed(res) && res.Move != 0 && len(res.Infos) > 0 && res.Infos[len(res.Infos)-1].Abort {
			r.Count("aborted_searches_returning_a_move", 1)
		}
	}
}

func TestCheck(t *testing.T) {
	r := ev.Start("C06")
	if err := ref.SelfTest(); err != nil {
		r.HarnessError("%v", err)
		r.Finish()
		t.Fatal(err)
	}
	board.VerifCheckEnabled = true
	board.VerifCheckFail = r.HookFail("C06:in-situ-consistency-check-failed-inside-search")
	var pset []string
	if r.Stage == "spsa" {
		pset = randomParams(r.RNG("c06-spsa", 0))
		if len(pset) == 0 {
			r.HarnessError("spsa stage built without the spsa tag")
			r.Finish()
			t.Fatal("no spsa params")
		}
		r.Sample(map[string]any{"kind": "spsa-parameters", "values": pset})
	}
	if r.Replay != "" {
		replay(t, r)
		r.Finish()
		return
	}
	c := &strace.Campaign{R: r, Stream: "c06-" + r.Stage, Judge: judge(r), Params: pset}
	switch r.Stage {
	case "race", "asan":
		c.Roots, c.Sweeps, c.SweepK = r.N(12, 120), r.N(16, 160), r.N(150, 600)
	case "spsa":
		c.Roots, c.Sweeps, c.SweepK = r.N(40, 300), r.N(48, 200), r.N(300, 1200)
	default:
		c.Roots, c.Sweeps, c.SweepK = r.N(120, 900), r.N(165, 560), r.N(400, 3000)
	}
	if r.Stage == "main" {
		c.Deep, c.DeepNodes = r.N(32, 320), r.N(2_000_000, 8_000_000)
	}
	c.Go()
	if r.Stage == "main" {
		uciPath(r)
	}
	r.Count("in_situ_consistency_checks_inside_search", board.VerifCheckCount.Load())
	floors := []string{"searches", "abort_sweep_points", "searches_on_poisoned_table", "engines_warmed_up_on_another_root", "abort_sweep_sparse_deep_points", "searches_with_stop_signal", "ponder_searches_hit", "ponder_searches_miss", "searches_with_wall_clock_soft_limit", "searches_on_tiny_tables_without_output", "null_move_results", "completed_searches_on_final_roots",
		"aborted_searches_returning_a_move", "in_situ_consistency_checks_inside_search", "root_mate", "root_stalemate", "root_repetition-3", "root_repetition-2", "root_near-fifty", "root_in-check", "root_few-replies", "root_promotion", "root_castle"}
	if r.Stage == "main" {
		floors = append(floors, "uci_go_commands", "uci_go_depth_over_127")
	}
	r.Finish(floors...)
}

// uciPath: position ... ; go <arbitrary numeric arguments>; the bestmove token is judged like a search result.
func uciPath(r *ev.Run) {
	n := r.N(2000, 20000)
	ev.Parallel(n, func(wk, i int) {
		rng := r.RNG("c06-uci", i)
		root, kind := strace.RandomRoot(rng, strace.RootKinds[i%len(strace.RootKinds)])
		if root.Start.Half > 100 {
			return
		}
		var args []string
		bounded := false
		completed := false
		depthZero := false // an unparsable depth becomes depth 0, outside the domain "depth of at least 1"
		switch rng.IntN(9) {
		case 0:
			d := []int{1, 2, 3, 64, 100, 127, 128, 129, 200, 255, 256, 1000, 1000000}[rng.IntN(13)]
			args = []string{"depth", fmt.Sprint(d), "nodes", fmt.Sprint(500 + rng.IntN(3000))}
			if d >= 128 {
				r.Count("uci_go_depth_over_127", 1)
			}
			bounded = true
		case 1:
			args = []string{"depth", fmt.Sprint(1 + rng.IntN(4))}
			bounded, completed = true, true
		case 2:
			args = []string{"nodes", fmt.Sprint([]int{0, 1, 2, 10, 100, 1000, -5, -100, 1 << 40}[rng.IntN(9)]), "depth", fmt.Sprint(1 + rng.IntN(4))}
			bounded = true
		case 3:
			args = []string{"movetime", fmt.Sprint(1 + rng.IntN(20)), "nodes", "20000"}
			bounded = true
		case 4:
			args = []string{"wtime", fmt.Sprint(1 + rng.IntN(300)), "btime", fmt.Sprint(1 + rng.IntN(300)), "winc", fmt.Sprint(rng.IntN(50)), "binc", fmt.Sprint(rng.IntN(50)), "nodes", "20000"}
			bounded = true
		case 5:
			args = []string{"depth", "abc", "nodes", "300"} // unparsable numbers become 0
			bounded, depthZero = true, true
		case 6:
			args = []string{"wtime", "-50", "btime", "-50", "movetime", "-3", "depth", "3", "nodes", "5000"}
			bounded = true
		case 7:
			args = []string{"depth", "99999999999999999999", "nodes", "700"}
			bounded, depthZero = true, true
		default:
			args = []string{"nodes", fmt.Sprint(rng.IntN(2000))}
			bounded = true
		}
		if !bounded {
			return
		}
		gocmd := "go " + strings.Join(args, " ")
		w := uciWitness{Kind: "uci", Start: root.Start.FEN(), Moves: root.MoveNames(), Go: gocmd}
		r.Current(wk, w)
		uciCase(r, &root, w, completed, depthZero)
		r.Count("uci_go_commands", 1)
		r.Count("uci_root_"+kind, 1)
	})
}

func uciCase(r *ev.Run, root *strace.Root, w uciWitness, completed, depthZero bool) {
	s := eng.NewSession()
	cmd := "position fen " + w.Start
	if len(w.Moves) > 0 {
		cmd += " moves " + strings.Join(w.Moves, " ")
	}
	s.Send(cmd)
	s.Send(w.Go)
	lines, ok := s.Until("bestmove", 180*time.Second)
	closed := s.Close(60 * time.Second)
	r.Eval(1)
	if !ok || !closed {
		r.Inconclusive(fmt.Sprintf("uci %q: no bestmove / no termination before the watchdog (ok=%v closed=%v)", w.Go, ok, closed))
		return
	}
	f := strings.Fields(lines[len(lines)-1])
	bm := ""
	if len(f) > 1 {
		bm = f[1]
	}
	legal := false
	for _, m := range root.Pos.Legal() {
		if m.String() == bm {
			legal = true
		}
	}
	switch {
	case bm == "0000":
		if !root.Final() && !depthZero {
			r.Violation("C06:uci-bestmove-0000-on-non-final-root", w, fmt.Sprintf("%s: root %s is not final (clock %d, occurrence %d, %d legal moves) but the driver answered %q", w.Go, root.Pos.FEN(), root.Pos.Half, root.Count, len(root.Pos.Legal()), lines[len(lines)-1]))
		}
	case !legal:
		r.Violation("C06:uci-bestmove-not-legal", w, fmt.Sprintf("%s: root %s, answer %q", w.Go, root.Pos.FEN(), lines[len(lines)-1]))
	default:
		if completed && root.Final() {
			r.Violation("C06:uci-completed-search-on-final-root-returns-move", w, fmt.Sprintf("%s: final root %s, answer %q", w.Go, root.Pos.FEN(), lines[len(lines)-1]))
		}
	}
}

func replay(t *testing.T, r *ev.Run) {
	var probe struct {
		Kind string `json:"kind"`
	}
	if err := ev.ReadReplay(r.Replay, &probe); err != nil {
		t.Fatal(err)
	}
	if probe.Kind == "uci" {
		var w uciWitness
		ev.ReadReplay(r.Replay, &w)
		start := ref.MustFEN(w.Start)
		cur := start
		var ms []ref.Move
		for _, name := range w.Moves {
			for _, m := range cur.Legal() {
				if m.String() == name {
					ms = append(ms, m)
					cur = cur.Make(m)
					cur = cur.Normalised()
					break
				}
			}
		}
		root := strace.NewRoot(start, ms)
		uciCase(r, &root, w, false, strings.Contains(w.Go, "depth abc") || strings.Contains(w.Go, "depth 9999999999"))
		return
	}
	var c strace.Case
	if err := ev.ReadReplay(r.Replay, &c); err != nil {
		t.Fatal(err)
	}
	strace.Replay(&c, judge(r))
}
