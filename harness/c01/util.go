package c01

import "github.com/paulsonkoly/chess-3/chess"

func chessDepth(d int) chess.Depth { return chess.Depth(d) }
