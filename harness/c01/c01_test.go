package c01

import (
	"bytes"
	"fmt"
	"math/rand/v2"
	"strings"
	"testing"

	"github.com/paulsonkoly/chess-3/board"
	"github.com/paulsonkoly/chess-3/debug"
	"github.com/paulsonkoly/chess-3/move"
	"github.com/paulsonkoly/chess-3/uci"

	"verif/harness/conv"
	"verif/harness/eng"
	"verif/harness/ev"
	"verif/harness/gen"
	"verif/harness/ref"
)

type witness struct {
	Kind  string   `json:"kind"`
	Start string   `json:"start_fen,omitempty"`
	Moves []string `json:"moves,omitempty"`
	FEN   string   `json:"fen"`
	Depth int      `json:"depth,omitempty"`
}

type worker struct {
	ms    *move.Store
	lc    *ev.Local
	reuse board.Board // loaded again and again with ParseFEN, the way the tuner loads positions
}

// checkPos compares the engine's playable moves on b (which must represent p) with the reference.
func checkPos(r *ev.Run, w *worker, p *ref.Pos, b *board.Board, wit witness) {
	rl := p.Legal()
	gen := eng.Gen(b, w.ms)
	el := eng.Legal(b, w.ms)
	r.Eval(1)
	lc := w.lc.C
	if eng.HasDup(gen) {
		r.Violation("C01:duplicate-generated-move", wit, fmt.Sprintf("generated list contains an encoding twice: %v", eng.Names(gen)))
	}
	if !eng.SameSet(el, rl) {
		r.Violation("C01:legal-set-mismatch:"+wit.Kind, wit, fmt.Sprintf("fen %s\nengine playable: %v\nreference legal: %v", wit.FEN, eng.Names(el), eng.RefNames(rl)))
	}
	// feature counters
	inCheck := p.InCheck(p.White)
	if inCheck {
		lc["in_check"]++
		if p.Checkers() > 1 {
			lc["double_check"]++
		}
	}
	var castle, ep, promo, under bool
	for _, m := range rl {
		if p.IsCastle(m) {
			castle = true
		}
		if p.IsEPCapture(m) {
			ep = true
		}
		if m.Promo() != 0 {
			promo = true
			if m.Promo() != ref.Q {
				under = true
			}
		}
	}
	if castle {
		lc["with_castling"]++
	}
	if ep {
		lc["with_en_passant"]++
	}
	if promo {
		lc["with_promotion"]++
	}
	if under {
		lc["with_underpromotion"]++
	}
	if len(rl) == 0 {
		lc["no_legal_move"]++
	}
	if !inCheck && len(gen) > len(rl) {
		// a pseudo-legal non-king move that is illegal while not in check: a pin (or e.p. exposure)
		ks := p.KingSq(p.White)
		legal := map[ref.Move]bool{}
		for _, m := range rl {
			legal[m] = true
		}
		for _, m := range p.Pseudo() {
			if !legal[m] && m.From() != ks {
				lc["with_pinned_piece"]++
				break
			}
		}
	}
	if len(rl) > 0 && p.PieceCount() >= 3 {
		r.DistinctStr(p.Key())
	}
}

func TestCheck(t *testing.T) {
	r := ev.Start("C01")
	if err := ref.SelfTest(); err != nil {
		r.HarnessError("%v", err)
		r.Finish()
		t.Fatal(err)
	}
	if r.Replay != "" {
		replay(t, r)
		r.Finish()
		return
	}
	nw := ev.Workers()
	ws := make([]*worker, nw)
	for i := range ws {
		ws[i] = &worker{ms: move.NewStore(), lc: ev.NewLocal()}
	}

	// --- loaded positions: dense / sparse / adversarial
	type src struct {
		name string
		f    func(*rand.Rand) (ref.Pos, bool)
		n    int
	}
	const chunk = 500
	for _, s := range []src{{"raw-ep", gen.RawEP, r.N(40000, 1600000)}, {"dense", gen.Dense, r.N(240000, 9600000)}, {"sparse", gen.Sparse, r.N(160000, 6400000)}, {"adv", gen.Adv, r.N(400000, 16000000)}} {
		ev.Parallel(s.n/chunk, func(wk, i int) {
			w := ws[wk]
			rng := r.RNG("c01-"+s.name, i)
			for k := 0; k < chunk; k++ {
				p, ok := s.f(rng)
				if !ok {
					w.lc.C["rejected_draws"]++
					continue
				}
				fen := p.FEN()
				b, err := board.FromFEN(fen)
				if err != nil {
					r.Violation("C01:fromfen-rejects-valid", witness{Kind: s.name, FEN: fen}, err.Error())
					continue
				}
				checkPos(r, w, &p, b, witness{Kind: "loaded-" + s.name, FEN: fen})
				// the allocation-free loader into a board that held another position before
				if err := board.ParseFEN(&w.reuse, []byte(fen)); err != nil {
					r.Violation("C01:parsefen-rejects-valid", witness{Kind: s.name, FEN: fen}, err.Error())
				} else {
					w.reuse.ResetHash()
					checkPos(r, w, &p, &w.reuse, witness{Kind: "parsed-into-reused-board-" + s.name, FEN: fen})
					w.lc.C["positions_parsed_into_reused_board"]++
				}
				w.lc.C["positions_"+s.name]++
				if k == 0 && i%40 == 0 {
					r.Sample(map[string]any{"source": s.name, "fen": fen, "legal_moves": len(p.Legal())})
				}
			}
			r.Merge(w.lc)
		})
	}

	// --- positions reached by ONE played move from generated positions: every double push (the
	// e.p. bookkeeping happens in MakeMove, not in the loader) and a sample of the other moves
	nstep := r.N(120000, 4800000)
	ev.Parallel(nstep/chunk, func(wk, i int) {
		w := ws[wk]
		rng := r.RNG("c01-onestep", i)
		for k := 0; k < chunk; k++ {
			var p ref.Pos
			ok := false
			if k%3 != 0 {
				p, ok = gen.PrePush(rng)
			}
			if !ok {
				p = gen.AnyPos(rng)
			}
			b, err := board.FromFEN(p.FEN())
			if err != nil {
				continue
			}
			for _, m := range p.Legal() {
				v := p.Sq[m.From()]
				dbl := (v == ref.P || v == -ref.P) && (m.To()-m.From() == 16 || m.From()-m.To() == 16)
				if !dbl && rng.IntN(8) != 0 {
					continue
				}
				nx := p.Make(m)
				nx = nx.Normalised()
				rv := b.MakeMove(conv.M(m))
				checkPos(r, w, &nx, b, witness{Kind: "reached", Start: p.FEN(), Moves: []string{m.String()}, FEN: nx.FEN()})
				b.UndoMove(conv.M(m), rv)
				w.lc.C["positions_reached_by_one_move"]++
				if dbl {
					w.lc.C["positions_reached_by_double_push"]++
				}
			}
		}
		r.Merge(w.lc)
	})

	// --- reached positions: the engine board is carried along by MakeMove, never reloaded;
	// after every move the carried board and a freshly loaded one are both compared.
	corpus := gen.Corpus()
	games := r.N(3000, 120000)
	ev.Parallel(games, func(wk, i int) {
		w := ws[wk]
		rng := r.RNG("c01-play", i)
		var start ref.Pos
		switch rng.IntN(4) {
		case 0:
			start = corpus[0]
		case 1:
			start = gen.AnyPos(rng)
		default:
			start = corpus[rng.IntN(len(corpus))]
		}
		bias := gen.BiasRich
		if rng.IntN(4) == 0 {
			bias = gen.BiasRandom
		}
		steps := gen.Playout(rng, start, 40+rng.IntN(200), bias, 150)
		b := eng.MustBoard(&start)
		wit := witness{Kind: "reached", Start: start.FEN()}
		for _, st := range steps {
			b.MakeMove(conv.M(st.Move))
			wit.Moves = append(wit.Moves, st.Move.String())
			wit.FEN = st.Pos.FEN()
			p := st.Pos
			wcopy := wit
			wcopy.Moves = append([]string(nil), wit.Moves...)
			checkPos(r, w, &p, b, wcopy)
			w.lc.C["positions_reached"]++
			if rng.IntN(4) == 0 && p.Half <= 100 { // FEN carries clocks up to 100 only
				lb, err := board.FromFEN(p.FEN())
				if err != nil {
					r.Violation("C01:fromfen-rejects-valid", witness{Kind: "reached-reloaded", FEN: p.FEN()}, err.Error())
				} else {
					checkPos(r, w, &p, lb, witness{Kind: "reached-reloaded", FEN: p.FEN()})
					w.lc.C["positions_reloaded"]++
				}
			}
		}
		if i%100 == 0 && len(steps) > 0 {
			r.Sample(map[string]any{"source": "playout", "start": start.FEN(), "plies": len(steps), "end": steps[len(steps)-1].Pos.FEN()})
		}
		r.Merge(w.lc)
	})

	// --- exhaustive small material
	classes := [][]int8{{ref.Q}, {ref.R}, {ref.P}}
	if r.Thorough() {
		classes = append(classes, []int8{ref.B}, []int8{ref.N}, []int8{-ref.P})
	}
	ev.Parallel(len(classes), func(wk, i int) {
		w := ws[wk]
		n := gen.Small(classes[i], false, 1, 0, func(p ref.Pos) {
			b, err := board.FromFEN(p.FEN())
			if err != nil {
				r.Violation("C01:fromfen-rejects-valid", witness{Kind: "small", FEN: p.FEN()}, err.Error())
				return
			}
			checkPos(r, w, &p, b, witness{Kind: "loaded-small", FEN: p.FEN()})
		})
		w.lc.C["positions_small_exhaustive"] += int64(n)
		r.Merge(w.lc)
	})
	// strided 4-men classes with e.p.
	four := [][]int8{{ref.P, -ref.P}, {ref.Q, -ref.R}, {ref.R, -ref.P}, {ref.P, ref.P}}
	stride := r.N(97, 7)
	ev.Parallel(len(four)*4, func(wk, i int) {
		w := ws[wk]
		cl := four[i/4]
		n := gen.Small(cl, true, stride*4, (i%4)*stride+int(r.Seed)%stride, func(p ref.Pos) {
			b, err := board.FromFEN(p.FEN())
			if err != nil {
				r.Violation("C01:fromfen-rejects-valid", witness{Kind: "small4", FEN: p.FEN()}, err.Error())
				return
			}
			checkPos(r, w, &p, b, witness{Kind: "loaded-small4", FEN: p.FEN()})
		})
		w.lc.C["positions_small_4men_strided"] += int64(n)
		r.Merge(w.lc)
	})

	// --- perft observation points: debug.Perft and the UCI perft command vs reference perft
	np := r.N(6000, 120000)
	ev.Parallel(np, func(wk, i int) {
		rng := r.RNG("c01-perft", i)
		p := gen.AnyPos(rng)
		if i%3 == 0 {
			// a raw e.p. target in the FEN (capture legal or not), the way GUIs write it
			if q, ok := gen.RawEP(rng); ok {
				p = q
				r.Count("perft_roots_with_raw_ep_target", 1)
				if nq := q.Normalised(); nq.EP != q.EP {
					r.Count("perft_roots_with_ep_target_that_cannot_be_captured", 1)
				}
			}
		}
		d := 1 + rng.IntN(3)
		want := p.PerftBulk(d)
		b := eng.MustBoard(&p)
		got := debug.Perft(b, 0+chessDepth(d), false)
		r.Eval(1)
		r.Count("perft_compared", 1)
		if got != want {
			r.Violation("C01:perft-mismatch", witness{Kind: "perft", FEN: p.FEN(), Depth: d}, fmt.Sprintf("debug.Perft(%d)=%d reference=%d", d, got, want))
		}
	})
	// UCI `perft N` (prints its split to the process stdout, which the runner sends to a file)
	nu := r.N(100, 4000)
	for i := 0; i < nu; i++ {
		rng := r.RNG("c01-uciperft", i)
		p := gen.AnyPos(rng)
		if i%3 == 0 {
			if q, ok := gen.RawEP(rng); ok {
				p = q
			}
		}
		d := 1 + rng.IntN(2)
		want := p.PerftBulk(d)
		var out, errb bytes.Buffer
		in := strings.NewReader(fmt.Sprintf("position fen %s\nperft %d\nquit\n", p.FEN(), d))
		drv := uci.NewDriver(uci.WithInput(in), uci.WithOutput(&out), uci.WithError(&errb))
		drv.Run()
		lines := strings.Split(strings.TrimSpace(out.String()), "\n")
		last := lines[len(lines)-1]
		r.Eval(1)
		r.Count("uci_perft_compared", 1)
		if last != fmt.Sprint(want) {
			r.Violation("C01:uci-perft-mismatch", witness{Kind: "uci-perft", FEN: p.FEN(), Depth: d}, fmt.Sprintf("uci perft %d printed %q, reference %d (stderr %q)", d, last, want, errb.String()))
		}
	}
	r.Finish("in_check", "double_check", "with_castling", "with_en_passant", "with_promotion", "with_underpromotion", "with_pinned_piece",
		"no_legal_move", "positions_reached", "positions_reloaded", "perft_compared", "perft_roots_with_ep_target_that_cannot_be_captured", "uci_perft_compared", "positions_small_exhaustive", "positions_parsed_into_reused_board", "positions_reached_by_double_push")
}

func replay(t *testing.T, r *ev.Run) {
	var w witness
	if err := ev.ReadReplay(r.Replay, &w); err != nil {
		t.Fatal(err)
	}
	wk := &worker{ms: move.NewStore(), lc: ev.NewLocal()}
	switch w.Kind {
	case "perft", "uci-perft":
		p := ref.MustFEN(w.FEN)
		b := eng.MustBoard(&p)
		got, want := debug.Perft(b, chessDepth(w.Depth), false), p.PerftBulk(w.Depth)
		fmt.Printf("replay perft(%d) %s: engine %d reference %d\n", w.Depth, w.FEN, got, want)
		if got != want {
			r.Violation("C01:perft-mismatch", w, fmt.Sprintf("debug.Perft(%d)=%d reference=%d", w.Depth, got, want))
		}
	case "reached":
		p := ref.MustFEN(w.Start)
		b := eng.MustBoard(&p)
		for _, ms := range w.Moves {
			var found ref.Move
			for _, m := range p.Legal() {
				if m.String() == ms {
					found = m
				}
			}
			if found == 0 {
				t.Fatalf("replay: move %s not legal in %s", ms, p.FEN())
			}
			b.MakeMove(conv.M(found))
			p = p.Make(found)
			p = p.Normalised()
		}
		checkPos(r, wk, &p, b, w)
	default:
		p := ref.MustFEN(w.FEN)
		b := eng.MustBoard(&p)
		checkPos(r, wk, &p, b, w)
	}
}
