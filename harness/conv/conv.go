// Package conv converts between the reference model's moves and the engine's. How the engine packs
// (from, to, promotion) into its storage word is its own business: conversions go through the
// engine's constructors and accessors, never through the bit layout.
package conv

import (
	"github.com/paulsonkoly/chess-3/chess"
	"github.com/paulsonkoly/chess-3/move"

	"verif/harness/ref"
)

// M is the engine's encoding of a reference move (the null move stays the null move).
func M(m ref.Move) move.Move {
	if m == 0 {
		return 0
	}
	return move.From(chess.Square(m.From())) | move.To(chess.Square(m.To())) | move.Promo(chess.Piece(m.Promo()))
}

// R is the reference form of an engine move.
func R(m move.Move) ref.Move {
	return ref.Move(uint16(m.To()) | uint16(m.From())<<6 | uint16(m.Promo())<<12)
}

// Triple is the canonical index (to | from<<6 | promo<<12, 0..32767) of an engine move: the harness's
// own numbering of the 2^15 (from, to, promotion bits) triples.
func Triple(m move.Move) int { return int(R(m)) }

// FromTriple is the engine move for a canonical triple index.
func FromTriple(e int) move.Move {
	return move.From(chess.Square(e>>6&63)) | move.To(chess.Square(e&63)) | move.Promo(chess.Piece(e>>12&7))
}
