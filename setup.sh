#!/bin/sh
# Offline setup: warm the Go build cache for the harness (plain, race and asan standard library).
set -e
cd "$(dirname "$0")"
export GOFLAGS=-mod=mod GOPROXY=off GOSUMDB=off GOTOOLCHAIN=local
export GOCACHE="$(pwd)/.build/gocache"
mkdir -p .build/gocache evidence replays
cp /repo/go.sum harness/go.sum
(cd harness && go1.26 build -tags verif ./... && go1.26 vet -tags verif ./ref ./gen ./ev ./eng >/dev/null 2>&1 || true)
(cd harness && go1.26 build -race -tags verif ./eng ./ref ./gen ./ev >/dev/null 2>&1 || true)
(cd harness && go1.26 build -asan -tags verif ./eng ./ref ./gen ./ev >/dev/null 2>&1 || true)
echo setup done
