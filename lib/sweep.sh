#!/bin/bash
# usage: lib/sweep.sh "<seeds>" [ids...]   — runs the quick checks at several seeds on the current tree; prints one line per run.
# Evidence files are restored to what they were (evidence is only committed from seed-1 runs of the registered commands).
seeds="$1"; shift
ids="$@"
[ -z "$ids" ] && ids=$(python3 -c "import sys;sys.path.insert(0,'/verif/lib');from props import PROPS;print(' '.join(sorted(PROPS)))")
cd /verif
for s in $seeds; do
  for id in $ids; do
    cp evidence/$id.json /tmp/sweep-ev-$id.json 2>/dev/null
    VERIF_SEED=$s ./check $id --tier ${TIER:-quick} > /tmp/sweep-$id-$s.log 2>&1
    rc=$?
    echo "seed=$s $id rc=$rc $(tail -1 /tmp/sweep-$id-$s.log)"
    [ $rc -ne 0 ] && grep -m3 "signature\|HARNESS\|INCONCLUSIVE" /tmp/sweep-$id-$s.log
    cp /tmp/sweep-ev-$id.json evidence/$id.json 2>/dev/null
    find /verif/replays -name "$id-$s-*.json" -newer /tmp/sweep-ev-$id.json -delete 2>/dev/null
  done
done
