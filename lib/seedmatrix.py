#!/usr/bin/env python3
"""seedmatrix.py [ids...]  — applies every seeded change under /verif/seeded to /repo (one at a time, reverted afterwards),
runs the quick check of the property it breaks (plus extra checks named on the command line as Cxx+Cyy) and records
which check caught it in seeded/<id>/meta.json and seeded/MATRIX.md."""
import json, os, subprocess, sys, re, shutil
V = "/verif"
seeds = sorted(d for d in os.listdir(V + "/seeded") if os.path.isdir(V + "/seeded/" + d))
only = [a for a in sys.argv[1:]]
rows = []
for sd in seeds:
    if only and sd not in only and sd.split("-")[0] not in only:
        continue
    meta = json.load(open(f"{V}/seeded/{sd}/meta.json"))
    pid = meta["breaks_property"]
    extra = meta.get("also_run", [])
    if subprocess.run(["git", "-C", "/repo", "status", "--porcelain"], capture_output=True, text=True).stdout.strip():
        print("/repo not clean"); sys.exit(2)
    subprocess.run(["git", "-C", "/repo", "apply", f"{V}/seeded/{sd}/patch.diff"], check=True)
    det = {}
    try:
        for cid in [pid] + extra:
            ev = f"{V}/evidence/{cid}.json"
            bak = open(ev).read() if os.path.exists(ev) else None
            p = subprocess.run([f"{V}/check", cid, "--tier", "quick"], cwd=V, capture_output=True, text=True)
            sigs = re.findall(r"signature: (.*)", p.stdout)
            det[cid] = {"exit": p.returncode, "violations": len(re.findall(r"^VIOLATION", p.stdout, re.M)), "first_signature": sigs[0] if sigs else None}
            if bak is not None:
                open(ev, "w").write(bak)
            for f in os.listdir(f"{V}/replays"):
                if f.startswith(cid + "-"):
                    os.remove(f"{V}/replays/{f}")
    finally:
        subprocess.run(["git", "-C", "/repo", "checkout", "--", "."], check=True)
    meta["detected_by"] = det
    json.dump(meta, open(f"{V}/seeded/{sd}/meta.json", "w"), indent=1)
    caught = [c for c, d in det.items() if d["exit"] == 1]
    rows.append((sd, pid, ", ".join(f"{c} ({det[c]['first_signature']})" for c in caught) or "MISSED", (meta.get("summary") or "")[:110]))
    print(rows[-1][:3], flush=True)
# rewrite the matrix from all meta files
lines = ["# Seeded changes and the checks that catch them (quick tier, VERIF_SEED=1)", "", "| seed | breaks | caught by (first signature) | change |", "|---|---|---|---|"]
for sd in seeds:
    meta = json.load(open(f"{V}/seeded/{sd}/meta.json"))
    det = meta.get("detected_by")
    if not isinstance(det, dict):
        continue
    caught = [c for c, d in det.items() if d["exit"] == 1]
    lines.append("| %s | %s | %s | %s |" % (sd, meta["breaks_property"], "; ".join(f"{c}: `{det[c]['first_signature']}`" for c in caught) or "**missed**", (meta.get("summary") or "").replace("|", "/").replace("\n", " ")[:160]))
open(f"{V}/seeded/MATRIX.md", "w").write("\n".join(lines) + "\n")
