#!/usr/bin/env python3
"""Regenerates /verif/MANIFEST.json from lib/props.py (checks) and properties.jsonl (not_applicable for anything unclaimed)."""
import json, os, sys
V = os.path.dirname(os.path.dirname(os.path.abspath(__file__)))
sys.path.insert(0, os.path.join(V, "lib"))
from props import PROPS
props = [json.loads(l) for l in open(os.path.join(V, "properties.jsonl"))]
checks = []
for p in props:
    pid = p["id"]
    if pid not in PROPS or PROPS[pid].get("disabled"):
        continue
    c = PROPS[pid]
    checks.append({
        "property_id": pid,
        "quick_cmd": "./check %s --tier quick" % pid,
        "thorough_cmd": "./check %s --tier thorough" % pid,
        "evidence_file": "/verif/evidence/%s.json" % pid,
        "replay_cmd_template": "./check %s --replay {path}" % pid,
        "engine": "runtime-monitor",
        "level_claimed": {"category": "exploration", "text": c["level_text"], "design_ref": "DESIGN.md section 5, " + pid},
        "level_note": c["level_note"],
        "technique": c["technique"],
    })
na = [{"property_id": p["id"], "reason": PROPS.get(p["id"], {}).get("disabled") or "check not built yet (work in progress; DESIGN.md section 5 has the plan)"}
      for p in props if p["id"] not in PROPS or PROPS[p["id"]].get("disabled")]
m = {
    "version": 1,
    "setup_cmd": "./setup.sh",
    "hooks": {
        "guard": "verif",
        "enable": "go1.26 test -c -tags verif (harness modules under /verif/harness and /verif/tharness use `replace github.com/paulsonkoly/chess-3 => /repo`)",
        "baseline_off_cmd": "cd /repo && go test -mod=mod -json -vet=off -count=1 -timeout 25m ./...",
        "source_commits": ["9274ec3", "98ca736", "cabbe14", "2c0930d", "d8bf174"],
        "add_only": True,
    },
    "engines": [{"name": "runtime-monitor", "path": "/verif/check", "serves_properties": [c["property_id"] for c in checks],
                 "kind_free_text": "Go monitor binaries (reference-model oracles, invariant hooks, trace checkers) built from /repo's working tree with -tags verif, run under the Go race detector / checkptr / ASan where the stage table says so; python runner with stall watchdog"}],
    "checks": checks,
    "not_applicable": na,
    "notes": "fix commits in /repo: ca07998 6487e62 1677e4b ee516a7 432bd4b 1836e4f (see known_findings.jsonl, DESIGN.md section 7). Exit codes of ./check: 0 held on what was observed, 1 violation, 2 harness could not run.",
}
json.dump(m, open(os.path.join(V, "MANIFEST.json"), "w"), indent=1)
print("checks:", len(checks), "not_applicable:", len(na))
