#!/bin/bash
# usage: lib/tryneutral.sh <dir with nX/patch.diff ...> [ids...]  — applies each property-preserving patch to the scratch
# repository $REPODIR (default /tmp/cleanrepo), runs the quick checks against it, reverts. A check that is not silent
# (rc != 0) on a change under which the property still holds is a false alarm of the check.
dir="$1"; shift
ids="$@"
[ -z "$ids" ] && ids="C01 C02 C03 C04 C05 C06 C07 C08 C09 C10 C11 C12 C13 C14 C15 C16 C17 C18 C19 C20"
R="${REPODIR:-/tmp/cleanrepo}"; export VERIF_REPO="$R"
cd /verif
for p in "$dir"/*/patch.diff; do
  n=$(basename $(dirname "$p"))
  [ -n "$(git -C "$R" status --porcelain)" ] && { echo "$R not clean"; exit 2; }
  git -C "$R" apply "$p" || { echo "$n: patch does not apply"; continue; }
  for id in $ids; do
    cp evidence/$id.json /tmp/nevbak-$id.json 2>/dev/null
    VERIF_KEEP=0 ./check "$id" --tier quick > /tmp/neutral-$(basename $dir)-$n-$id.log 2>&1
    rc=$?
    echo "$(basename $dir)/$n $id rc=$rc $(grep -m1 'signature:\|HARNESS' /tmp/neutral-$(basename $dir)-$n-$id.log)"
    [ $rc -eq 0 ] && rm -f /tmp/neutral-$(basename $dir)-$n-$id.log
    cp /tmp/nevbak-$id.json evidence/$id.json 2>/dev/null
    find /verif/replays -name "$id-*.json" -delete
  done
  git -C "$R" checkout -- . ; git -C "$R" clean -fdq
done
