#!/usr/bin/env python3
"""verify_seed.py <Cxx> <variant>  — confirm a seeded change in its scratch worktree /tmp/wt/<Cxx>:
patch applies, tree builds, existing suite passes with it, demonstration fails with it and passes
without it. On success the change is stored under /verif/seeded/<Cxx>-<variant>/ with the
confirmation appended to meta.json. The worktree is left clean."""
import json, os, re, shutil, subprocess, sys, glob

pid, var = sys.argv[1], sys.argv[2]
WT_BASE = os.environ.get("SEED_WT", "/tmp/wt")
OUT_BASE = os.environ.get("SEED_OUT", "/tmp/seed/out")
NAME = os.environ.get("SEED_NAME", var)  # name under /verif/seeded (round 2 stores a->c, b->d)
wt = WT_BASE + "/" + pid
src = "%s/%s/%s" % (OUT_BASE, pid, var)
env = dict(os.environ, GOFLAGS="-mod=mod", GOPROXY="off", GOSUMDB="off", GOTOOLCHAIN="local")
GO = "go1.26"


def sh(cmd, cwd=None, timeout=3000):
    p = subprocess.run(cmd, shell=True, cwd=cwd, env=env, stdout=subprocess.PIPE, stderr=subprocess.STDOUT, text=True, timeout=timeout)
    return p.returncode, p.stdout


def clean():
    sh("git checkout -- . && git clean -fdq", cwd=wt)


def demo_plan():
    """returns (kind, info): 'module' -> run go test in demo dir; 'inpkg' -> list of (file, dir) + run cmd"""
    demo = os.path.join(src, "demo")
    run = open(os.path.join(demo, "RUN.md")).read() if os.path.exists(os.path.join(demo, "RUN.md")) else ""
    if os.path.exists(os.path.join(demo, "go.mod")):
        return "module", None
    copies = []
    for f in glob.glob(os.path.join(demo, "*.go")):
        txt = open(f).read()
        base = os.path.basename(f)
        m = re.search(r"cp\s+\S*%s\s+\S*?(?:<repo>|\$\w+|/tmp/wt\d*/%s)/([\w/]+?)/?(?:%s)?\s" % (re.escape(base), pid, re.escape(base)), run + "\n")
        d = m.group(1) if m else None
        if d and not os.path.isdir(os.path.join(wt, d)):
            d = os.path.dirname(d) or None  # the copy renames the file (cp x_test.go <dir>/zz_x_test.go)
        if d is None:
            pk = re.search(r"^package (\w+)", txt, re.M).group(1).replace("_test", "")
            d = pk
        copies.append((f, d.rstrip("/")))
    m = re.search(r"(go1\.26 test[^\n]*)", run)
    cmd = m.group(1) if m else None
    return "inpkg", (copies, cmd)


def run_demo():
    kind, info = demo_plan()
    demo = os.path.join(src, "demo")
    if kind == "module":
        tmp = "/tmp/vs-demo-%s-%s" % (pid, var)
        shutil.rmtree(tmp, ignore_errors=True)
        shutil.copytree(demo, tmp)
        gm = open(os.path.join(tmp, "go.mod")).read()
        gm = re.sub(r"=> /tmp/wt\d*/[A-Z]\d+", "=> " + wt, gm)
        open(os.path.join(tmp, "go.mod"), "w").write(gm)
        shutil.copy(os.path.join(wt, "go.sum"), os.path.join(tmp, "go.sum"))
        rc2, out2 = sh("bash -c '%s test -count=1 ./... > /tmp/vs-out-%s%s.txt 2>&1; echo $?'" % (GO, pid, var), cwd=tmp, timeout=1800)
        code = int(out2.strip().splitlines()[-1])
        shutil.rmtree(tmp, ignore_errors=True)
        return code, open("/tmp/vs-out-%s%s.txt" % (pid, var)).read()[-1500:]
    copies, cmd = info
    placed = []
    for f, d in copies:
        dst = os.path.join(wt, d, os.path.basename(f))
        shutil.copy(f, dst)
        placed.append(dst)
    if not cmd:
        cmd = GO + " test -vet=off -count=1 ./" + copies[0][1] + "/"
    cmd = re.sub(r"\s+#.*$", "", cmd).replace("<repo>", wt)
    rc2, out2 = sh("bash -c '%s > /tmp/vs-out-%s%s.txt 2>&1; echo $?'" % (cmd.replace("'", "'\\''"), pid, var), cwd=wt, timeout=1800)
    code = int(out2.strip().splitlines()[-1])
    for p in placed:
        os.remove(p)
    return code, open("/tmp/vs-out-%s%s.txt" % (pid, var)).read()[-1500:]


res = {"property": pid, "variant": var}
clean()
rc, out = sh("git apply --check %s/patch.diff" % src, cwd=wt)
res["patch_applies"] = rc == 0
if rc != 0:
    print(json.dumps(res), out)
    sys.exit(1)
code0, out0 = run_demo()
res["demo_passes_without_change"] = code0 == 0
sh("git apply %s/patch.diff" % src, cwd=wt)
rc, out = sh(GO + " build ./... && " + GO + " build -tags verif ./...", cwd=wt)
res["builds_with_and_without_tag"] = rc == 0
code1, out1 = run_demo()
res["demo_fails_with_change"] = code1 != 0
rc, out = sh("bash -c '%s test -vet=off -count=1 -timeout 25m ./... > /tmp/vs-suite-%s%s.txt 2>&1; echo $?'" % (GO, pid, var), cwd=wt)
res["suite_passes_with_change"] = out.strip().splitlines()[-1] == "0"
clean()
res["demo_output_with_change_tail"] = out1[-600:]
ok = all(res[k] for k in ("patch_applies", "demo_passes_without_change", "builds_with_and_without_tag", "demo_fails_with_change", "suite_passes_with_change"))
res["confirmed"] = ok
print(json.dumps({k: v for k, v in res.items() if k != "demo_output_with_change_tail"}))
if not res["demo_passes_without_change"]:
    print(out0)
if ok:
    PROP = os.environ.get("SEED_PROP", pid)
    dst = "/verif/seeded/%s-%s" % (PROP, NAME)
    shutil.rmtree(dst, ignore_errors=True)
    os.makedirs(dst)
    shutil.copy(os.path.join(src, "patch.diff"), dst)
    shutil.copytree(os.path.join(src, "demo"), os.path.join(dst, "demo"))
    meta = json.load(open(os.path.join(src, "meta.json")))
    out_meta = {"breaks_property": PROP, "summary": meta.get("summary"), "needs_to_manifest": meta.get("needs_to_manifest"),
                "files_changed": meta.get("files_changed"), "author": "independent sub-agent given only the property text and a scratch worktree",
                "confirmed_by_me": {"how": "lib/verify_seed.py in scratch worktree " + wt + ": git apply; go build (with and without -tags verif); full existing suite `go1.26 test -vet=off -count=1 ./...`; demonstration run with and without the change",
                                    **{k: res[k] for k in ("patch_applies", "builds_with_and_without_tag", "suite_passes_with_change", "demo_fails_with_change", "demo_passes_without_change")}},
                "detected_by": "see DESIGN.md section 10 (filled in by lib/seedmatrix.py)"}
    json.dump(out_meta, open(os.path.join(dst, "meta.json"), "w"), indent=1)
sys.exit(0 if ok else 1)
