"""Per-property stage tables for ./check (what is built, with which sanitizer, how it is run)."""

VALID = ("valid position = exactly one king per side, no pawns on ranks 1/8, promoted material within the pawn budget, "
         "side not to move not in check, castling rights only with king+rook at home, e.p. target only behind a pawn that could just have double-pushed "
         "(filter: harness/ref Valid())")
REF = "reference rules model harness/ref (mailbox, ray walking) is trusted after its perft self-test against published counts at the start of every run"

PROPS = {
    "C01": {
        "pkg": "./c01",
        "stages": [{"name": "main", "timeout_q": 1500, "timeout_t": 7200}],
        "rule": "cases = positions from seeded generators (dense random placements incl. promoted material, sparse endgames, adversarial check/pin/e.p./castling constructions, "
                "positions reached by ONE played move from generated positions (every double push of pre-double-push constructions, where the e.p. bookkeeping of MakeMove decides), positions reached by MakeMove along biased playouts from a 214-FEN corpus and the same positions reloaded from FEN, every loaded position also parsed with ParseFEN into a board that held another position before, exhaustive 3-men classes, strided 4-men classes with e.p.) "
                "plus perft comparisons through debug.Perft and the UCI perft command; each case compares the engine's playable-move multiset with the reference legal moves. "
                "debug.Perft and the UCI `perft N` command are compared with the model's perft on 6000 (thorough 120000) / 100 roots, every third one carrying a RAW e.p. target as GUIs write it (capturable or not). distinct_nontrivial = distinct (placement, side, rights, normalised e.p.) keys among cases with >= 3 pieces and >= 1 legal move. " + VALID,
        "assumptions": [REF],
        "technique": "runtime monitor: reference-model oracle (independent mailbox move generator) over generated and played-out positions, exhaustive 3-men enumeration",
        "level_text": "Every explored position's playable-move multiset equals the reference legal-move set (and has no duplicate), on ~2e6 (quick) / ~4e7 (thorough) positions incl. exhaustive 3-men classes, both loaded from FEN and reached by MakeMove; perft through debug.Perft and UCI perft agrees with reference perft. Held on the executions observed, not a proof.",
        "level_note": "trusted: harness/ref rules model (self-tested against published perft counts each run), Go toolchain; positions outside the generators' reach are not covered",
    },
    "C02": {
        "pkg": "./c02",
        "stages": [{"name": "main", "timeout_q": 1500, "timeout_t": 7200}],
        "rule": "cases = (position, legal move) pairs: every legal move of generated positions (dense, sparse, adversarial e.p./check/castling constructions) and every move of game histories "
                "(biased playouts, oscillating shuffles, capture-free runs that push the halfmove clock through 100/128/150) played on ONE engine board that is never reloaded, plus UCI scripts "
                "`position (startpos|fen F) moves ...; fen`; each case compares all six FEN fields of the engine successor with reference Make + e.p. normalisation (target kept iff a legal e.p. capture exists). "
                "UCI path: one `position ... moves ...` + `fen` per fresh driver (also command lines of several KB) and SESSIONS of 3-8 position commands in ONE driver (the same game resent with more moves, take-backs, startpos and fen games interleaved, ucinewgame/isready in between), `fen` after each: the position after a command depends on that command alone. distinct_nontrivial = distinct start keys (one-step) + distinct (start, move list) histories. " + VALID,
        "assumptions": [REF, "a legal game ends by rule when the halfmove clock reaches 150, histories are generated up to that value"],
        "technique": "runtime monitor: reference-model successor oracle (field-wise FEN comparison) along carried game histories and through the real UCI driver",
        "level_text": "Every explored (position, legal move) successor and every prefix of every explored history has exactly the reference FEN (placement, side, rights, normalised e.p., both counters), ~1e6 quick / ~2e7 thorough comparisons, incl. thousands of e.p. targets suppressed because the capture would be illegal and clocks past 128. Held on the executions observed.",
        "level_note": "trusted: harness/ref Make/Normalised (self-tested by perft and e.p. specials); the UCI path uses the real uci.Driver over in-memory readers",
    },
    "C03": {
        "pkg": "./c03",
        "stages": [{"name": "main", "timeout_q": 1500, "timeout_t": 7200}],
        "rule": "cases = make/undo pairs with a deep snapshot (all exported fields + full hash history + fullmove number via the board hook) taken before the make and compared after the undo: "
                "(1) exhaustive trees of depth 2-3 from corpus and generated roots reached through a short move prefix, where EVERY pseudo-legal move (legal or not) and the null move is made and undone at every node; "
                "(2) random lines of up to 400 plies of legal moves with interleaved null moves, unwound completely in reverse with the stored snapshot compared at every level; (3) debug.Perft(3) must leave the board unchanged. "
                "The in-situ consistency hook (verifCheck) runs inside every MakeMove/UndoMove/MakeNullMove/UndoNullMove. Half of the deep lines run on past the 75-move boundary preferring reversible moves (clocks of 300-600 are made and undone; counter highest_halfmove_clock_in_a_line). distinct_nontrivial = distinct tree roots + distinct lines. " + VALID,
        "assumptions": [REF, "snapshot equality compares slice contents and length, not capacity"],
        "technique": "runtime monitor: invariant at a hook (deep board snapshot before make / after undo) over exhaustive shallow trees and deep random lines incl. illegal pseudo-legal moves and null moves",
        "level_text": "Every explored make/undo pair (legal moves, illegal pseudo-legal moves, null moves; nested up to 400 deep; ~1e7 quick / ~2e8 thorough) restored every attribute of the board including the whole hash history. Held on the executions observed.",
        "level_note": "trusted: the add-only snapshot hook board/export_verif.go copies every field of Board; positions come from the seeded generators",
    },
    "C04": {
        "pkg": "./c04",
        "stages": [{"name": "main", "timeout_q": 1500, "timeout_t": 7200}],
        "rule": "cases = board states observed after every operation of (1) random walks of 50-400 operations mixing legal moves, illegal pseudo-legal make/undo, null moves (search-like: not in check, never two in a row; and unrestricted) and partial undos: "
                "incremental hash == from-scratch hash (hook) and SquaresToPiece/Pieces/Colors describe one placement, plus FromFEN(b.FEN()).Hash()==b.Hash() on a sample; "
                "(2) full-width trees of depth 2-4 where a map (placement, side, rights, normalised e.p.) -> hash must stay functional (transpositions by permuted move orders); "
                "(3) the same consistency check executed in situ by the board hook at every make/undo inside real searches; (4) five boards alive at once (StartPos() x3, FromFEN of the same text, a clone) moved in random interleaving: every board is re-checked after every operation on any of them and untouched boards must be bit-identical. Walks and trees also start from FENs that carry a RAW, possibly non-capturable e.p. target. distinct_nontrivial = distinct walks + distinct tree roots + distinct multi-board runs. " + VALID,
        "assumptions": [REF, "the from-scratch hash exposed by the add-only hook is the repo's own calculateHash"],
        "technique": "runtime monitor: invariant at a hook (incremental hash vs recomputed hash, three placement encodings agree) after every operation + transposition map over full-width trees + in-situ check inside the real search",
        "level_text": "After every explored make / null-make / undo (~2e6 quick / ~4e7 thorough boundary states, ~1e7+ in-situ states inside real searches) the incremental hash equalled the recomputed one and the three placement encodings agreed; every position reached by two move orders carried one hash. Held on the executions observed.",
        "level_note": "trusted: repo's own calculateHash as the definition of the position hash; ref.Key() as position identity",
    },
    "C05": {
        "pkg": "./c05",
        "stages": [{"name": "main", "timeout_q": 1500, "timeout_t": 7200}],
        "rule": "cases = (position, encoding) pairs: for each generated position ALL 32768 move encodings are put to Board.IsPseudoLegal and compared with membership in GenNoisy+GenNotNoisy output (reference pseudo-legal set as fault localiser); "
                "positions are weighted to pawns on the 2nd/7th rank, castling-ready kings and e.p. targets (corpus, playouts, dense/sparse/adversarial, pre-double-push). End to end: for sampled positions every one of the 20480 "
                "in-alphabet 4/5-character move strings plus 2000 out-of-alphabet strings goes through the real UCI driver (`position fen F moves X; fen`) and the printed board must be F or the successor under a GENERATED move. "
                "evaluations counts encodings + strings; distinct_nontrivial = distinct position keys of the exhaustive part. " + VALID,
        "assumptions": [REF, "the definition of 'emitted' is the engine's own generator output, as the property states"],
        "technique": "runtime monitor: exhaustive per-position enumeration of all 2^15 encodings against the generator as oracle + end-to-end UCI move-string sweep",
        "level_text": "For every explored position IsPseudoLegal agreed with generator membership on all 32768 encodings (1.3e8 pairs quick / 3.3e9 thorough), and no UCI move string put a non-generated move on the board. Per position the enumeration is complete; over positions it is exploration.",
        "level_note": "trusted: nothing beyond the engine's own generator as the definition and the real uci.Driver; out-of-alphabet strings may alias a genuine move through parseUCIMove's byte arithmetic, which the statement allows",
    },
    "C09": {
        "pkg": "./c09",
        "stages": [{"name": "main", "timeout_q": 1500, "timeout_t": 7200}],
        "rule": "cases = valid positions with normalised e.p. state, split by in-check / not-in-check: IsCheckmate() (only when in check) and IsStalemate() (only when not in check) vs (reference legal-move count == 0). "
                "Sources: exhaustive KQK/KRK/KBK/KNK/KPK, strided 4-men classes incl. every valid e.p. target, adversarial constructions (slider/knight/pawn checks with capturers, interposers by piece/push/double push, pins, boxed-in kings, e.p. geometry, and a dedicated theme for interposition by double push: own pawn at home, third-rank square empty / enemy / own piece / own pawn pinned along the rank, king's neighbourhood blocked), "
                "dense and sparse random placements, and quiescence-shaped descents (random noisy-move sequences from playout positions, from the ends of PVs reported by real searches, optionally after a null move). "
                "distinct_nontrivial = distinct keys among positions that are in check or have <= 3 legal moves. " + VALID,
        "assumptions": [REF],
        "technique": "runtime monitor: reference-model oracle (legal-move count) for the two fast terminal tests, exhaustive 3-men enumeration + adversarial generators + quiescence-shaped descents",
        "level_text": "On every explored position IsCheckmate/IsStalemate agreed with the absence of legal moves (~3e6 quick / ~3e7 thorough positions; all 3-men placements; tens of thousands of mates and stalemates; thousands of e.p. cases on both sides of the split). Held on the executions observed.",
        "level_note": "trusted: harness/ref legal move generator; each function is only called on its side of the in-check split as its contract says",
    },
    "C10": {
        "pkg": "./c10",
        "stages": [{"name": "main", "timeout_q": 1500, "timeout_t": 7200}],
        "rule": "cases = plies of game histories: after every move Board.Threefold() is compared with min(3, number of earlier positions of the history incl. the current one with the same (placement, side, rights, normalised e.p.) key). "
                "Histories are oscillating shuffles (each side retracts its previous move with probability 0.35-0.95, interleaved with quiet or rich moves: knight/king/rook oscillations, lost castling rights, transient e.p. rights) "
                "of up to 600 plies and biased playouts, from StartPos(), corpus FENs, generated positions, pre-double-push positions and start FENs that carry a RAW, possibly non-capturable e.p. target (identity is by capturability, so such a start position recurs when the same placement returns); forced-push histories make the position after a double push recur; on a sample the same history goes through the real UCI driver "
                "(`position ... moves ...; go depth 1 nodes 2000`) where bestmove 0000 must appear iff the root is final (third occurrence, clock >= 100 or no legal move). distinct_nontrivial = distinct (start, move list) histories. " + VALID,
        "assumptions": [REF, "position identity is ref.Key(): placement, side to move, castling rights, e.p. capturability"],
        "technique": "runtime monitor: online checker of a history specification (occurrence-count map keyed by reference position identity) along shuffle-biased game histories, plus the UCI path",
        "level_text": "At every ply of every explored history (~1e6 quick / ~2e7 thorough checks, hundreds of thousands on repeated positions incl. 3rd and later occurrences, placements recurring with different rights/e.p.) Threefold() equalled the true recurrence count capped at 3. Held on the executions observed.",
        "level_note": "trusted: harness/ref for move legality and e.p. normalisation; depends on C02's successor convention (a successor mismatch is tagged in the signature)",
    },
    "C12": {
        "pkg": "./c12",
        "stages": [{"name": "main", "timeout_q": 900, "timeout_t": 3600}],
        "rule": "cases = table lookups compared with an independent (file,rank) ray walker: for each of the 64 squares EVERY subset of the harness-computed relevant-occupancy mask for rook and bishop (102400 + 5248 subsets), "
                "each also OR-ed with 64 (quick) / 1024 (thorough) random patterns outside the mask (squares outside the mask must not matter); random full-board occupancies of three densities; king/knight sets for 64 squares; "
                "single-square pawn capture/push sets for 64x2 and random multi-pawn sets (union law); the interior of InBetween for all 4096 square pairs. distinct_nontrivial = distinct (piece kind, square) tables enumerated. exhaustive over the finite spaces named.",
        "assumptions": ["the harness ray walker (60 lines, arithmetic on file/rank only) is the geometric definition"],
        "technique": "runtime monitor: exhaustive enumeration of the finite table domains against an independent geometric ray walker",
        "level_text": "Complete enumeration: all mask subsets x all squares for both sliders, all leaper/pawn/InBetween entries; plus millions of occupancies with arbitrary squares outside the mask set. One wrong table cell is found with certainty.",
        "level_note": "trusted: the harness's geometric definitions; the magic index function is exercised through the public BishopMoves/RookMoves only",
    },
    "C17": {
        "pkg": "./c17",
        "stages": [{"name": "main", "timeout_q": 900, "timeout_t": 3600}],
        "rule": "cases = valid positions, each evaluated together with its colour-flipped mirror and with variants that differ only in non-positional state: every other castling-rights subset that is valid, every valid e.p. target and its absence, "
                "another fullmove number, a second evaluation of the same board; plus positions reached by MakeMove compared with the same position loaded from FEN (hash history), and the UCI eval command. "
                "Sources: dense (promoted material), sparse, adversarial, castling-ready, KNB v K with all bishop colours/corners, minor-piece-only endings around the insufficient-material boundary; clocks 0..100. "
                "distinct_nontrivial = distinct position keys. " + VALID,
        "assumptions": ["metamorphic oracle: no reference evaluation is needed", REF + " (used only for validity and mirroring)"],
        "technique": "runtime monitor: metamorphic equality oracle (mirror image, non-positional state variants) over generated positions",
        "level_text": "For every explored position the evaluation equalled that of its mirror image and of all variants differing only in rights / e.p. / fullmove number / history / prior evaluations (~2.5e5 positions x ~12 evaluations quick, ~6e6 thorough). Held on the executions observed.",
        "level_note": "trusted: ref.Mirror (rank flip + colour swap, self-tested via perft symmetry)",
    },
    "C18": {
        "pkg": "./c18",
        "stages": [{"name": "main", "timeout_q": 1500, "timeout_t": 7200}],
        "rule": "cases = (position, legal move, threshold) triples: for every legal move of generated positions (dense with batteries and x-rays, adversarial e.p. geometry, sparse, mixed) heur.SEE is probed at every admissible balance +-1 and on a 50-grid from -2000 to 2000; "
                "the answers must be monotone and the largest threshold answered true must be one of the balances of the reference capture-sequence minimax (mailbox swap: least valuable attacker with N=B=300, attackers recomputed from scratch after each removal so x-rays join, "
                "stand-pat at every step, king captures only when no enemy attacker remains, no pins, no recapture promotions) explored over ALL resolutions of ties among equally valued least attackers. evaluations counts threshold probes; distinct_nontrivial = distinct position keys. " + VALID,
        "assumptions": [REF + " (validity only)", "the reference swap algorithm (self-tested on hand-computed exchanges at the start of every run) is the capture-sequence minimax of the statement"],
        "technique": "runtime monitor: reference-model oracle (exchange minimax over all tie resolutions) + monotonicity check on a threshold scan",
        "level_text": "For every explored (position, legal move) the SEE answers were monotone in the threshold and their supremum was an admissible minimax balance (~1e6 moves x ~90 thresholds quick, ~2.5e7 moves thorough). Sound for any tie-break the engine uses. Held on the executions observed.",
        "level_note": "trusted: the 60-line reference swap; pins and recapturing-pawn promotions are outside the modelled exchange, as in the statement",
    },
    "C11": {
        "pkg": "./c11",
        "stages": [
            {"name": "main", "timeout_q": 1500, "timeout_t": 7200},
            {"name": "asan", "flags": ["-asan"], "timeout_q": 1500, "timeout_t": 7200},
            {"name": "checkptr", "flags": ["-gcflags=all=-d=checkptr"], "timeout_q": 1500, "timeout_t": 7200},
            {"name": "epd", "mod": "tharness", "pkg": "./c11epd", "timeout_q": 1500, "timeout_t": 7200},
            {"name": "epd-asan", "mod": "tharness", "pkg": "./c11epd", "flags": ["-asan"], "timeout_q": 1500, "timeout_t": 7200, "tiers": ["thorough"]},
        ],
        "rule": "cases = (a) valid positions from all generators incl. up to 8 promoted pieces per side in every mix, castling-ready and raw (non-capturable) e.p. targets: FromFEN(P.FEN()) must equal P attribute by attribute (snapshot hook), FromFEN(T).FEN()==T for the reference-printed canonical text T, "
                "ParseFEN into a previously used board must give the same, InvalidPieceCount must be false, and the UCI `position fen T; fen` must echo T; (b) arbitrary byte strings from a seeded structure-aware mutator (truncation at every byte, every single-byte substitution over a small alphabet on four seeds, "
                "field drop/duplicate/swap, overflowing digit runs, ranks not summing to 8, 9+ ranks, very long inputs, random bytes) fed to ParseFEN, FromFEN, FEN() of accepted boards and epd.Parse - a panic or sanitizer report is a violation (plain, -asan and checkptr builds, each input logged to disk before the call); "
                "(c) UCI `position fen <junk>; fen`: a FEN the parser or the piece-count gate rejects must leave the previous position. distinct_nontrivial = distinct canonical FEN texts round-tripped (+ distinct fuzz batches in the epd stage). " + VALID,
        "assumptions": [REF, "FEN text carries halfmove clocks 0..100 only (the parser's documented range)"],
        "technique": "runtime monitor: round-trip oracle against the reference model + seeded structure-aware fuzzing of the parsers under plain, AddressSanitizer and checkptr builds + UCI rejection trace check",
        "level_text": "All explored valid positions round-tripped exactly through FEN text (incl. into a reused board) and were accepted by the UCI position command; millions of hostile byte strings produced neither panic nor sanitizer report in ParseFEN/FromFEN/FEN/epd.Parse; no rejected FEN replaced the driver's position. Held on the executions observed.",
        "level_note": "trusted: harness/ref FEN printer as the canonical text; ASan/checkptr see only executed paths",
    },
    "C14": {
        "pkg": "./c14",
        "stages": [{"name": "main", "timeout_q": 1500, "timeout_t": 7200}],
        "rule": "cases = clock states: (a) through the export hook VerifLimits: exhaustive grid remaining time 1..4000 ms (thorough 1..20000) x increments {0..200, 1e3..1e9} x both colours, boundary neighbourhoods of 30/60/120/30k/120k/1e6/1e9/1e12, random clocks incl. movetime; "
                "each case applies exactly the statement's inequalities (hard > 0, hard <= remaining, hard <= remaining-30 when remaining > 30, movetime => soft == hard == movetime) and re-evaluates with 12 variants of the OPPONENT's clock and increment, which must not change anything; "
                "(b) end to end in synctest virtual time: the real uci.Driver with a blocking mock search; the SoftTime option the mock receives and the exact virtual instant at which Stop closes (the deadline actually armed, also after `go ponder` + `ponderhit`, also while the mock search has the driver's board at an odd ply - side to move flipped - and while the GUI pings `isready` every 7 virtual ms) are judged by the same inequalities "
                "and must equal the helpers' values for the side to move. A deadline that is never armed is a violation: the bubble sleeps the whole remaining time + 1 s of virtual time and the stop channel must be closed by then. The margin is the driver's exported constant uci.TimeSafetyMargin (must be positive). distinct_nontrivial = distinct remaining-time values of the exhaustive grid + distinct end-to-end clock states.",
        "assumptions": ["virtual time inside testing/synctest bubbles is exact: no wall-clock quantity enters a verdict", "safety margin is 30 ms as documented in uci.TimeSafetyMargin"],
        "technique": "runtime monitor: inequality oracle over an exhaustive grid through an export hook + end-to-end observation of the armed deadline in synctest virtual time with the real driver",
        "level_text": "All grid, boundary and random clock states satisfied the statement's inequalities and were independent of the opponent's clock (~3e6 quick / ~3e7 thorough states); in thousands of virtual-time runs the real driver armed exactly that deadline for the side to move, incl. after ponderhit. Held on the executions observed.",
        "level_note": "trusted: testing/synctest's virtual clock; the hook only forwards to the unexported timeControl helpers",
    },
    "C16": {
        "pkg": "./c16",
        "stages": [{"name": "main", "timeout_q": 1500, "timeout_t": 7200}],
        "rule": "cases = picker runs (position, hash candidate, ranker state, history stack): the real picker.New/Next/Move with the real move.Store and stack.Stack is iterated to exhaustion; the yielded sequence must be a permutation of GenNoisy+GenNotNoisy, "
                "start with the hash candidate whenever that is generated, and every yielded weight must lie in its band (quiet within +-3*1024, noisy in the good/bad capture bands). Hash candidates: none, every generated move, and 256 (quick) / 4096 (thorough) random encodings "
                "incl. promotion-bit variants of real moves. Ranker states: empty; driven to saturation by thousands of FailHigh calls with depths up to 127 and extreme weights (largest stored magnitude must stay <= 1024); and rankers taken from engines that have just searched real games. "
                "Plus the EXHAUSTIVE one-step bound: for each of the three history tables, every stored value in [-M,M] x every bonus in [-M-76,M+76] stays within +-M, M = heur.MaxHistory (1024 on the current tree: 3 x 4.5e6 cases); the weight bands are the engine's exported heur.HashMove / heur.Captures / heur.MaxHistory and the layout must keep them apart (Captures > 3*MaxHistory, HashMove > Captures). distinct_nontrivial = distinct (position, ranker) pairs. " + VALID,
        "assumptions": [REF + " (validity only)", "band constants are those documented in heur/heur.go (HashMove 16k, Captures 7k, CaptureRange 1k, MaxHistory 1k)"],
        "technique": "runtime monitor: multiset-equality oracle against the generator on the real picker + band assertions at yield time + exhaustive one-step history bound",
        "level_text": "Every explored picker run yielded each pseudo-legal move exactly once, hash move first when pseudo-legal, all weights inside their bands (~2e6 runs quick / ~5e8 thorough) under empty, saturated and realistic history tables; the one-step history bound is checked exhaustively. Held on the executions observed.",
        "level_note": "trusted: the engine's own generator as the definition of the move set; history tables reached only through FailHigh/Add as in the search",
    },
    "C15": {
        "pkg": "./c15",
        "stages": [
            {"name": "main", "timeout_q": 1500, "timeout_t": 7200},
            {"name": "checkptr", "flags": ["-gcflags=all=-d=checkptr"], "timeout_q": 1500, "timeout_t": 7200},
            {"name": "asan", "flags": ["-asan"], "timeout_q": 1500, "timeout_t": 7200},
            {"name": "race", "flags": ["-race"], "timeout_q": 1500, "timeout_t": 7200},
        ],
        "rule": "cases = operations of seeded histories (8000 ops each) of Insert / LookUp / next-generation / Clear / Resize(+Clear, sometimes without) on a real transp.Table, over pools of 120 keys built to collide "
                "(same bucket/different signature, same signature/different bucket, same both/different low bits; signatures 0, 0x8000, 0xffff), depths 0..63 with pairs straddling the +2 keep-deeper rule, plies 0..63 at store and probe, scores at 0, +-1, +-(Inf-65..Inf-63), +-Inf and random, "
                "generations incl. the 255->0 wrap and entries of the previous generation, sizes 32 B (one bucket) .. 2 MiB+32 incl. odd bucket counts and counts not divisible by 4, key pools biased to the first and last buckets, resize up/down and 'resize down, clear, resize up, clear' dances after which every earlier key must be gone. Oracle: executable sequential model keyed by (bucket from the hook, 16-bit signature): every hit must return the modelled depth/bound/move/re-based value, "
                "no hit for a never-stored or cleared (bucket, signature != 0), a probe right after a store hits and reflects it except for the keep-deeper rule, a store makes at most one other reachable key unreachable (eviction is learned by probing, the policy is not modelled), every other live key is unchanged by a store; zero-signature keys are exempt from the no-phantom clause only - an exact store of such a key must be found by the next probe. "
                "After a resize without clear only memory safety is judged. The lane matcher is tested directly (random words with planted key/key+-1/key^0x8000 lanes and an exhaustive pattern family). All of it repeated on checkptr, -asan and -race builds. "
                "evaluations = operations + matcher cases; distinct_nontrivial = distinct seeded histories.",
        "assumptions": ["bucket identity comes from the add-only hook VerifBucketIx, so a different but correct index function raises no alarm", "the replacement policy is not modelled: only 'at most one victim per store'"],
        "technique": "runtime monitor: offline-free online checker of recorded Insert/LookUp/Clear/Resize histories against an executable sequential model, under plain, checkptr, AddressSanitizer and race-detector builds",
        "level_text": "Every operation of every explored history (~5e6 ops quick / ~1e8 thorough on the plain build, plus reduced volumes under checkptr, ASan and the race detector) agreed with the sequential model; no sanitizer report, incl. continued use after Resize without Clear. Held on the executions observed.",
        "level_note": "trusted: the 150-line sequential model; sanitizers only see executed paths; contents after a resize without clear are not judged (as the property says)",
    },
    "C06": {
        "pkg": "./c06",
        "stages": [
            {"name": "main", "timeout_q": 1800, "timeout_t": 10800},
            {"name": "spsa", "tags": "verif,spsa", "timeout_q": 1800, "timeout_t": 10800, "tiers": ["thorough"]},
            {"name": "race", "flags": ["-race"], "timeout_q": 1800, "timeout_t": 10800, "tiers": ["thorough"]},
            {"name": "asan", "flags": ["-asan"], "timeout_q": 1800, "timeout_t": 10800, "tiers": ["thorough"]},
        ],
        "rule": "cases = real search.Search.Go calls: roots of 13 classes (played-out with history, fresh, in check, <=2 replies, promotion available, clock 96..104, 2nd and 3rd occurrence built by MakeMove, mate, stalemate, dense, castling-ready, castling right present but castling blocked - the last two always with a castling encoding planted in the table for the root hash) x requests "
                "(depth 1..10, soft nodes, hard nodes, pre-closed stop channel, stop channel closed from another goroutine after 0..2000 us) x table sizes 32 B..16 MiB (tiny tables without Output), several requests per engine so tables are warm, half of the engines first search ANOTHER position (state left by a different root: PV buffer, tables, histories), a third of the roots run on a table with PLANTED entries for the root and successor hashes (pseudo-legal-but-illegal moves, arbitrary encodings, mate scores - what a 16-bit signature collision leaves behind), ponder searches that are hit / missed, wall-clock soft limits (legality only), "
                "plus the ABORT SWEEP: WithNodes(k) for EVERY k in [0,K] (K=400 quick, 5000 thorough) on roots of every class - each k is one possible arrival time of stop / hard timeout - continued sparsely up to 40*K nodes (abort points inside aspiration re-searches and null-move subtrees of later iterations); plus the UCI path: `position ...; go <args>` with depth up to 1e6 and unparsable/negative/huge numbers. "
                "Oracle per search: returned move is null or in the reference legal moves; null only if the root is final; a completed search on a final root returns null with score 0 / mated; deep board snapshot equal before and after Go; node budget not exceeded (also while pondering); the same engine then answers a fresh position legally; "
                "the board consistency hook runs at every make/undo inside the search. A deep/wide workload goes to the far ends of the search's own dimensions: iteration depths 40-63 on bare endgames (K+P v K, K+P v K+P, K+R v K) and roots with 5-9 queens and 102+ legal moves; `locked` roots (rammed pawns, boxed kings, 1-3 legal moves) and warm-ups on siblings of the root (same position minus one or two men) line up per-slot engine state with the root's own moves. An abort-then-search workload (240 single-reply roots with captures behind the reply, half with an exact entry of another position under the root key; for every hard budget k = 1..40: Clear, `go nodes k`, then `go depth 1|2` on the same engine) looks at what an aborted search leaves behind. thorough adds a verif,spsa build with random in-range parameter values, a -race build and an -asan build (the table is an unsafe.Slice over a byte buffer). distinct_nontrivial = distinct (root, table size) pairs.",
        "assumptions": [REF, "time-based limits are replaced by node budgets (the search polls them at the same points); wall-clock only chooses the moment of an async stop, never a verdict"],
        "technique": "runtime monitor: reference legality oracle + deep board snapshot before/after + in-situ consistency hook over real searches with a dense abort-point sweep (node budget as logical stop time), race detector in thorough",
        "level_text": "Every explored search (~6e4 quick / ~5e6 thorough incl. every abort point k<=K on ~100/900 roots) returned a legal move or the null move on a final root, left the board identical, respected its node budget and left the engine usable; ~1e8 in-situ board consistency checks passed inside the searches. Held on the executions observed.",
        "level_note": "trusted: harness/ref legality and repetition counting; abort points are swept densely on sampled roots, not on all",
    },
    "C07": {
        "pkg": "./c07",
        "stages": [{"name": "main", "timeout_q": 1800, "timeout_t": 10800}],
        "rule": "cases = traces of real searches (lines written to Output + return values): the C06 campaign (11 root classes x depth / soft / hard node limits / stop signals / table sizes, several searches per engine, and the abort sweep WithNodes(k) for every k<=K), "
                "the same warm-up / planted-table / sparse deep abort points as C06, whole games played on ONE engine without Clear (tables warmed by the preceding searches) on 32000-byte (1000 buckets, heavy collisions), 1 MiB and 8 MiB tables, and the real UCI driver with Ponder=true (`info` and `bestmove M ponder P` lines). "
                "Offline trace checker: every line parses under the info grammar; every pv is a sequence of successively legal moves from the root under the reference model; the returned move is the first move of the most recent NON-EMPTY pv (if none: null or a legal fallback move); "
                "a non-null ponder move is legal after the returned move; depths strictly increase and node counts never decrease within a search (the abort line included). The deep workload (32 quick / 320 thorough searches to iteration depth 40-63 with 12e6-30e6 nodes on bare endgames) produces variations of 45-60 moves (counter longest_pv). Info lines are parsed with the UCI info grammar (any field order, extra fields), not the engine's present format. distinct_nontrivial = distinct (root, table size) pairs + distinct games.",
        "assumptions": [REF],
        "technique": "runtime monitor: offline checker of recorded search traces (info-line grammar, PV legality under the reference model, move/PV/ponder agreement, monotone depth and node counters)",
        "level_text": "Every explored search trace (~5e4 quick / ~4e6 thorough, incl. aborted searches at every abort point and games on warm and heavily colliding tables) satisfied the trace specification: ~1e5+ PVs legal move by move, returned move = head of the last non-empty PV, ponder legal. Held on the executions observed.",
        "level_note": "trusted: harness/ref for legality; info grammar as printed by search.go",
    },
    "C08": {
        "pkg": "./c08",
        "stages": [
            {"name": "main", "timeout_q": 1800, "timeout_t": 10800},
            {"name": "race", "flags": ["-race"], "timeout_q": 1800, "timeout_t": 10800},
        ],
        "rule": "cases = searches of lock-step games (40 moves, tables carry over, no Clear between moves) on three independent engine instances: A plays with soft node limits and records the node count N_i each search ended with, "
                "B replays every search with the hard budget N_i, C repeats A's requests. After EVERY move: (score, move, ponder, Counters.Nodes), the info lines with the time field stripped, and a digest of the complete persistent state "
                "(every TT bucket, generation counter, all history tables - via the export hooks) must be equal between A and C and between A and B (B may add one trailing `info depth d nodes N` abort line), and B's node count must not exceed N_i; separately, ponder searches with a hard budget (ponderhit after 0..3000 us) must never count or report more than the budget; and ACROSS PROCESSES (plain build): 32 (thorough 320) games of 12 hard-budget searches on one fresh engine each (starts with double pushes / e.p. captures close, tables 32 KB..8 MiB) are played in this process and in two new processes of the same test binary, and the per-search transcripts (move, ponder, score, nodes, hash of the info lines without wall-clock fields, state digest) must be identical - what the crash-reproduction workflow (`go nodes N` replayed in a new process) relies on. "
                "Half of the games start their searches WITHOUT the Counters option (as the UCI driver does; node counts are then read from the info lines), half answer each engine move with an unsearched pseudo-random reply so that roots are not already in the table, one move in five has a tiny soft limit (1..12 nodes). Games run concurrently on 16 goroutines with CPU burners and GOMAXPROCS varied during the run, on plain and -race builds; table sizes 32000 B / 1 MiB / 8 MiB; soft limits 1..20000 nodes. "
                "evaluations = searches; distinct_nontrivial = distinct games.",
        "assumptions": ["soft TIME limits are represented by soft NODE limits (the search treats both identically between iterations); wall-clock is not an observable", "digest = FNV-style hash over all table bytes and history entries"],
        "technique": "runtime monitor: lock-step differential comparison of independent engine instances (results, traces, persistent-state digests) along whole games under load, in one process and across separately started processes of the same binary, with the Go race detector",
        "level_text": "In every explored game, after every move, engines in the same state given the same request produced identical results, traces and persistent state, and hard-budget replays reproduced soft-limited searches exactly without exceeding the budget (~6e3 searches quick / ~6e4 thorough per build); no race report across concurrently running instances. Held on the executions observed.",
        "level_note": "trusted: digest hooks cover tt, gen and the four history tables (the whole state Search keeps between calls); scheduling diversity is whatever 16 goroutines + burners + GOMAXPROCS changes produce",
    },
    "C19": {
        "mod": "tharness",
        "pkg": "./c19",
        "stages": [{"name": "main", "timeout_q": 1500, "timeout_t": 7200}],
        "rule": "cases = (a) valid positions loaded with ParseFEN without hash, as the tuner does (dense incl. promoted material with game phase > 24, sparse, mixed generators, KNB v K / bare kings, playouts; clocks 0..100): "
                "|EngineRep(EngineCoeffs()).Eval(P) - white-relative eval.Eval[Score](P)| < 2.25, exactly 0 where no rounding applies (KNB v K, bare kings); EngineCoeffs() equals the shipped coefficients value by value; "
                "(b) target-group choices for the vector mapping: DefaultTargets, all groups, none, every single group, and all 2^k subsets of random k in 6..10 groups (in both orders): every float field is tagged with a unique value by reflection in the harness, then "
                "ToVector[i] == *TunedParams[i] == the i-th selected field in declaration order, SetVector(tags) is read back identically through ToVector and TunedParams, and no unselected field changes. The tuner packages are rsynced from the working tree into a scratch module. "
                "distinct_nontrivial = distinct FEN texts evaluated.",
        "assumptions": [REF + " (validity only)", "the 2.25 cp envelope is taken from the statement"],
        "technique": "runtime monitor: differential oracle (float tuner evaluation vs integer engine evaluation within the stated envelope) + reflection-tagged bijection check of the parameter vector views",
        "level_text": "On every explored position the tuner's float evaluation with the shipped coefficients stayed within 2.25 cp of the engine's integer evaluation (white-relative), exactly equal where no rounding applies; for every explored choice of tuned groups the three vector views addressed the same coefficient at the same index. Held on the executions observed.",
        "level_note": "trusted: reflection walk over eval.CoeffSet[float64] in declaration order as the definition of 'the same coefficient'; scratch-module copy of tools/tuner/{epd,tuning,checksum}",
    },
    "C20": {
        "mod": "tharness",
        "pkg": "./c20",
        "stages": [
            {"name": "main", "timeout_q": 1500, "timeout_t": 7200, "stall": 150},
            {"name": "race", "flags": ["-race"], "timeout_q": 1800, "timeout_t": 7200, "stall": 300},
            {"name": "asan", "flags": ["-asan"], "timeout_q": 1800, "timeout_t": 7200, "stall": 300, "tiers": ["thorough"]},
        ],
        "rule": "cases = (a) shuffle permutations: for every n in [1,6000] (thorough 20000) x epochs 0..15 + two random 64-bit epochs, and n = 2^k, 2^k+-1 up to 2^22 plus batch/chunk sizes, x -> VerifShuffleIndex(x,n,epoch) is checked to be a permutation of [0,n) with a bitmap; "
                "(b) data files written by the harness in which every line is `<id>:<payload>` (a read identifies the line it delivered): every line count 1..300 (thorough 1200) x blank-line variants {none, at the start, single in the middle, runs, at the end, everywhere} x line lengths up to 4000 bytes, "
                "sampled sizes up to 200001 lines (three batches; chunk boundary 6250; 2^k+-1), and one file larger than the 32 MiB read window with 2.8-4 KB lines straddling the refill boundary. For each file the whole epoch is read through tuning.Batches / tuning.Chunks / Chunker.Open / Chunk.Read and the delivered multiset must equal the non-blank lines byte for byte, "
                "batches must partition [0,n) and chunks each batch (also with ALL chunks of a batch open at once and read round-robin, and with one goroutine per chunk reading concurrently from the shared Chunker, as the client's workers do - the latter also under the race detector); line content includes trailing carriage returns, tabs, spaces and 0xff bytes; and an arbitrary sub-range [s,t) must deliver exactly the lines at the shuffled indices s..t-1. The tuner packages are rsynced from the working tree into a scratch module; files live under /verif/.build/tmp and are deleted. "
                "evaluations = permutations + files; distinct_nontrivial = distinct n of the exhaustive shuffle range + distinct file sizes.",
        "assumptions": ["documented format: newline-terminated lines below the 4 KiB line-reader buffer; blank lines are skipped", "a shuffle evaluation that does not return is reported by the runner's no-progress watchdog (150 s for work that takes microseconds)"],
        "technique": "runtime monitor: exactly-once / no-loss checker with unique line ids over recorded reads + exhaustive permutation check of the epoch shuffle through an export hook",
        "level_text": "For every explored (n, epoch) the shuffle was a permutation (exhaustive for n<=6000 quick / 20000 thorough); for every explored file, epoch and sub-range each non-blank line was delivered exactly once byte for byte, incl. blank lines in every place and lines straddling the 32 MiB read-window refill. Held on the executions observed.",
        "level_note": "trusted: the harness's file writer and id scheme; real file I/O through the OS page cache",
    },
    "C13": {
        "pkg": "./c13",
        "stages": [
            {"name": "race", "flags": ["-race"], "timeout_q": 2400, "timeout_t": 14400, "stall": 600},
            {"name": "plain", "timeout_q": 1800, "timeout_t": 14400, "stall": 600},
            {"name": "real", "timeout_q": 2400, "timeout_t": 14400, "stall": 900},
        ],
        "rule": "cases = executions of the real uci.Driver connected through pipes, each judged by an offline checker over ONE unified trace (send record appended before a command is written, receive record when the consumer reads a line): #bestmove == #go with the k-th bestmove after the k-th go, "
                "every info line of search k between go_k and bestmove_k (mock infos carry search id + sequence number + CRC over a long variable-length payload: lost, duplicated, reordered, torn or recycled-too-early buffers fail), #readyok == #isready and never ahead of it, uci/uciok, every line in the output grammar, "
                "Run returns after quit / end of input and no goroutine of the bubble remains. Workload A (testing/synctest virtual time, controllable mock search yielding at every progress point, under -race and plain): (1) systematic sweep: in-search command {none, stop, isready, isready x3, ponderhit, quit, EOF} x every progress point incl. the race with the search returning "
                "x go form {infinite, movetime, ponder} x follow-up {none, isready, position+go} x output back-pressure (stalled consumer fills the 4-slot output channel); (2) hold scenarios: the interrupt goroutine parked at the tag-guarded scheduling hook after k processed lines while the search finishes, then the GUI stalls its reading, floods isready, queues the next go and releases the goroutine (x40 repetitions: outcome depends on the runtime's random select); "
                "(3) random schedule explorer: random walks over {send next conforming command from the grammar, permit one mock step, stall/resume consumer, park/release at the hook, advance virtual time, synctest.Wait}. A deadlock is seen logically (all goroutines durably blocked and an answer missing). Workload B (real search, real time, 16 drivers in parallel, -race and plain): random conforming scripts with go nodes/depth/movetime/clock/infinite/ponder (also ponder with node, depth and movetime limits, which must be ignored until ponderhit while stop must still work), stop / isready floods / ponderhit / quit / EOF after delays of 0..50 ms. "
                "distinct_nontrivial = distinct schedules (action lists) + distinct real-time scripts; coverage also reports the number of distinct observed event-order signatures.",
        "assumptions": ["scripts are protocol-conforming: a new go/position is only sent after the previous bestmove was RECEIVED (the driver drops non-control lines during a search by design)",
                        "in Workload B a missing bestmove after stop / a Run that has not returned 90 s (scaled by VERIF_TIMEOUT_SCALE) after quit is bounded-progress evidence, everything else about time is only a watchdog (inconclusive)"],
        "technique": "runtime monitor: offline trace checker (exactly-once, ordering, causality, CRC-protected payloads) over schedules explored in synctest virtual time with a controllable mock search, a scheduling hook and output back-pressure; real-search stress; Go race detector",
        "level_text": "Every explored schedule (~1e4 quick / ~8e5 thorough virtual-time schedules incl. every injection point of the systematic sweep and the hold scenarios, plus hundreds/thousands of real-time sessions on 16 parallel drivers) satisfied the request/response trace specification, terminated with all goroutines gone, and produced no race report. Exploration at the granularity of communication events; not a proof over all interleavings.",
        "level_note": "trusted: testing/synctest (durable blocking = quiescence), the mock search as a stand-in for search progress points in workload A; preemption inside straight-line code is explored only as far as the Go scheduler and the race detector happen to",
    },
}
