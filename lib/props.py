"""Per-property stage tables for ./check (what is built, with which sanitizer, how it is run)."""

VALID = ("valid position = exactly one king per side, no pawns on ranks 1/8, promoted material within the pawn budget, "
         "side not to move not in check, castling rights only with king+rook at home, e.p. target only behind a pawn that could just have double-pushed "
         "(filter: harness/ref Valid())")
REF = "reference rules model harness/ref (mailbox, ray walking) is trusted after its perft self-test against published counts at the start of every run"

PROPS = {
    "C01": {
        "pkg": "./c01",
        "stages": [{"name": "main", "timeout_q": 1500, "timeout_t": 7200}],
        "rule": "cases = positions from seeded generators (dense random placements incl. promoted material, sparse endgames, adversarial check/pin/e.p./castling constructions, "
                "positions reached by MakeMove along biased playouts from a 214-FEN corpus and the same positions reloaded from FEN, exhaustive 3-men classes, strided 4-men classes with e.p.) "
                "plus perft comparisons through debug.Perft and the UCI perft command; each case compares the engine's playable-move multiset with the reference legal moves. "
                "distinct_nontrivial = distinct (placement, side, rights, normalised e.p.) keys among cases with >= 3 pieces and >= 1 legal move. " + VALID,
        "assumptions": [REF],
        "technique": "runtime monitor: reference-model oracle (independent mailbox move generator) over generated and played-out positions, exhaustive 3-men enumeration",
        "level_text": "Every explored position's playable-move multiset equals the reference legal-move set (and has no duplicate), on ~2e6 (quick) / ~4e7 (thorough) positions incl. exhaustive 3-men classes, both loaded from FEN and reached by MakeMove; perft through debug.Perft and UCI perft agrees with reference perft. Held on the executions observed, not a proof.",
        "level_note": "trusted: harness/ref rules model (self-tested against published perft counts each run), Go toolchain; positions outside the generators' reach are not covered",
    },
    "C02": {
        "pkg": "./c02",
        "stages": [{"name": "main", "timeout_q": 1500, "timeout_t": 7200}],
        "rule": "cases = (position, legal move) pairs: every legal move of generated positions (dense, sparse, adversarial e.p./check/castling constructions) and every move of game histories "
                "(biased playouts, oscillating shuffles, capture-free runs that push the halfmove clock through 100/128/150) played on ONE engine board that is never reloaded, plus UCI scripts "
                "`position (startpos|fen F) moves ...; fen`; each case compares all six FEN fields of the engine successor with reference Make + e.p. normalisation (target kept iff a legal e.p. capture exists). "
                "distinct_nontrivial = distinct start keys (one-step) + distinct (start, move list) histories. " + VALID,
        "assumptions": [REF, "a legal game ends by rule when the halfmove clock reaches 150, histories are generated up to that value"],
        "technique": "runtime monitor: reference-model successor oracle (field-wise FEN comparison) along carried game histories and through the real UCI driver",
        "level_text": "Every explored (position, legal move) successor and every prefix of every explored history has exactly the reference FEN (placement, side, rights, normalised e.p., both counters), ~1e6 quick / ~2e7 thorough comparisons, incl. thousands of e.p. targets suppressed because the capture would be illegal and clocks past 128. Held on the executions observed.",
        "level_note": "trusted: harness/ref Make/Normalised (self-tested by perft and e.p. specials); the UCI path uses the real uci.Driver over in-memory readers",
    },
}
