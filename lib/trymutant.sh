#!/bin/bash
# usage: lib/trymutant.sh <patch.diff> <property id>...   (applies the patch to /repo, runs the quick checks, reverts)
set -u
patch="$1"; shift
R="${REPODIR:-/repo}"; export VERIF_REPO="$R"
cd "$R" || exit 2
if [ -n "$(git status --porcelain)" ]; then echo "/repo not clean"; exit 2; fi
git apply "$patch" || { echo "patch does not apply"; exit 2; }
trap 'git -C "$R" checkout -- . ; git -C "$R" status --porcelain' EXIT
cd /verif
for id in "$@"; do
  cp evidence/$id.json /tmp/evbak-$id.json 2>/dev/null
  VERIF_KEEP=0 ./check "$id" --tier "${TIER:-quick}" > /tmp/mut-$id.log 2>&1
  rc=$?
  echo "== $id rc=$rc $(grep -c '^VIOLATION' /tmp/mut-$id.log) violations; $(grep -m1 'signature:' /tmp/mut-$id.log)"
  tail -1 /tmp/mut-$id.log
  cp /tmp/evbak-$id.json evidence/$id.json 2>/dev/null
  find /verif/replays -name "$id-*.json" -delete
done
