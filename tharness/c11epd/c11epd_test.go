package c11epd

import (
	"fmt"
	"testing"

	"github.com/paulsonkoly/chess-3/board"
	"github.com/paulsonkoly/chess-3/tools/tuner/epd"

	"verif/harness/ev"
	"verif/harness/fuzz"
	"verif/harness/gen"
)

type witness struct {
	Kind  string `json:"kind"`
	Input string `json:"input_hex"`
}

// TestCheck fuzzes the tuner's EPD line parser (FEN + "; <result>") with arbitrary byte strings.
func TestCheck(t *testing.T) {
	r := ev.Start("C11")
	corpus := gen.Corpus()
	suffix := [][]byte{[]byte("; 1.0"), []byte("; 0.5"), []byte("; 0.0"), []byte("; 2.0"), []byte(";1.0"), []byte(""), []byte("; 1.00"), []byte(" ; 0.5")}
	n := r.N(600_000, 12_000_000)
	const chunk = 2000
	nw := ev.Workers()
	boards := make([]board.Board, nw)
	ev.Parallel(n/chunk, func(wk, i int) {
		rng := r.RNG("c11-epd", i)
		lc := ev.NewLocal()
		for k := 0; k < chunk; k++ {
			var in []byte
			seed := corpus[rng.IntN(len(corpus))].FEN()
			switch rng.IntN(4) {
			case 0:
				in = append([]byte(seed), suffix[rng.IntN(len(suffix))]...)
			default:
				in = append(fuzz.Stack(rng, seed), suffix[rng.IntN(len(suffix))]...)
			}
			if rng.IntN(8) == 0 && len(in) > 0 {
				in = in[:rng.IntN(len(in)+1)]
			}
			r.LogCase(wk, in)
			func() {
				defer func() {
					if x := recover(); x != nil {
						r.Violation("C11:epd-parse-panic", witness{Kind: "epd", Input: fmt.Sprintf("%x", in)}, fmt.Sprintf("epd.Parse(%q) panicked: %v", string(in), x))
					}
				}()
				var res float64
				err := epd.Parse(in, &boards[wk], &res)
				r.Eval(1)
				lc.C["epd_inputs"]++
				if err == nil {
					lc.C["epd_accepted"]++
					_ = boards[wk].FEN()
					if res != 0 && res != 0.5 && res != 1 {
						r.Violation("C11:epd-result-out-of-range", witness{Kind: "epd", Input: fmt.Sprintf("%x", in)}, fmt.Sprint(res))
					}
				} else {
					lc.C["epd_rejected"]++
				}
			}()
		}
		r.Distinct(uint64(i))
		if i%60 == 0 {
			r.Sample(map[string]any{"kind": "epd-line", "input": fmt.Sprintf("%q", string(fuzz.Stack(rng, corpus[0].FEN()))+"; 0.5")})
		}
		r.Merge(lc)
	})
	r.Finish("epd_inputs", "epd_accepted", "epd_rejected")
}
