module verif/tharness

go 1.25.4

require (
	github.com/paulsonkoly/chess-3 v0.0.0
	github.com/paulsonkoly/chess-3/tools/tuner v0.0.0
	verif/harness v0.0.0
)

require golang.org/x/exp v0.0.0-20250218142911-aa4b98e5adaa // indirect

replace github.com/paulsonkoly/chess-3 => /repo

replace github.com/paulsonkoly/chess-3/tools/tuner => /verif/.build/tuner

replace verif/harness => ../harness
