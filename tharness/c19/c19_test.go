package c19

import (
	"fmt"
	"math"
	"math/rand/v2"
	"reflect"
	"sort"
	"strings"
	"testing"

	"github.com/paulsonkoly/chess-3/board"
	"github.com/paulsonkoly/chess-3/chess"
	"github.com/paulsonkoly/chess-3/eval"
	"github.com/paulsonkoly/chess-3/tools/tuner/tuning"

	"verif/harness/ev"
	"verif/harness/gen"
	"verif/harness/ref"
)

type witness struct {
	Kind    string   `json:"kind"`
	FEN     string   `json:"fen,omitempty"`
	Targets []string `json:"targets,omitempty"`
	Index   int      `json:"index,omitempty"`
}

const envelope = 2.25

func checkPos(r *ev.Run, lc *ev.Local, er *tuning.EngineRep, p *ref.Pos, kind string) {
	fen := p.FEN()
	var tb board.Board // the tuner loads without hash
	if err := board.ParseFEN(&tb, []byte(fen)); err != nil {
		return
	}
	f := er.Eval(&tb)
	i := float64(eval.Eval(&tb, &eval.Coefficients))
	if tb.STM == chess.Black {
		i = -i // white-relative, the tuner's sign convention
	}
	d := math.Abs(f - i)
	r.Eval(1)
	lc.C["positions"]++
	r.MaxCount("max_abs_difference_millicentipawns", int64(d*1000))
	exact := eval.KNBvK(&tb) || (p.PieceCount() == 2)
	if exact {
		lc.C["positions_where_no_rounding_applies"]++
	}
	if tb.STM == chess.Black {
		lc.C["black_to_move"]++
	}
	ph := 0
	for _, v := range p.Sq {
		switch v {
		case ref.N, -ref.N, ref.B, -ref.B:
			ph++
		case ref.R, -ref.R:
			ph += 2
		case ref.Q, -ref.Q:
			ph += 4
		}
	}
	if ph > 24 {
		lc.C["positions_with_phase_above_24(promoted_material)"]++
	}
	switch {
	case math.IsNaN(f) || math.IsInf(f, 0):
		r.Violation("C19:float-eval-not-finite", witness{Kind: kind, FEN: fen}, fmt.Sprintf("%s: float eval %v", fen, f))
	case exact && d != 0:
		r.Violation("C19:evals-differ-where-no-rounding-applies", witness{Kind: kind, FEN: fen}, fmt.Sprintf("%s: tuner float eval %v, engine eval (white-relative) %v", fen, f, i))
	case d >= envelope:
		sig := "C19:evals-differ-beyond-rounding-envelope"
		if math.Abs(f+i) < envelope {
			sig = "C19:sign-convention-differs"
		}
		r.Violation(sig, witness{Kind: kind, FEN: fen}, fmt.Sprintf("%s: tuner float eval %.4f, engine eval (white-relative) %.0f, |difference| %.4f >= %.2f (game phase %d)", fen, f, i, d, envelope, ph))
	}
	r.DistinctStr(fen)
}

// floatFields returns pointers to every float64 of the struct in declaration order per field name.
func floatFields(v reflect.Value, out *[]*float64) {
	switch v.Kind() {
	case reflect.Float64:
		*out = append(*out, v.Addr().Interface().(*float64))
	case reflect.Array:
		for i := 0; i < v.Len(); i++ {
			floatFields(v.Index(i), out)
		}
	case reflect.Struct:
		for i := 0; i < v.NumField(); i++ {
			floatFields(v.Field(i), out)
		}
	}
}

// mapping checks that ToVector / SetVector / TunedParams address the same coefficient at the same
// index for one choice of target groups.
func mapping(r *ev.Run, targets []string) {
	wit := witness{Kind: "mapping", Targets: targets}
	var e tuning.EngineRep
	st := reflect.ValueOf((*eval.CoeffSet[float64])(&e)).Elem()
	// tag every float field with a unique value; remember which tags belong to selected groups
	var all []*float64
	floatFields(st, &all)
	for i, p := range all {
		*p = 1000 + float64(i)
	}
	var want []float64 // tags of the selected fields
	sel := map[string]bool{}
	for _, t := range targets {
		sel[t] = true
	}
	selected := map[*float64]bool{}
	for i := 0; i < st.NumField(); i++ {
		if sel[st.Type().Field(i).Name] {
			var ps []*float64
			floatFields(st.Field(i), &ps)
			for _, p := range ps {
				want = append(want, *p)
				selected[p] = true
			}
		}
	}
	r.Eval(1)
	vec := e.ToVector(targets).VectorToSlice()
	if len(vec) != len(want) {
		r.Violation("C19:vector-length", wit, fmt.Sprintf("targets %v: ToVector has %d elements, the selected fields have %d floats", targets, len(vec), len(want)))
		return
	}
	// the vector is a bijection onto the selected coefficients: every selected tag exactly once and
	// nothing else. In which ORDER the coefficients are laid out is the tuner's choice.
	wantSet := map[float64]bool{}
	for _, t := range want {
		wantSet[t] = true
	}
	seenTag := map[float64]bool{}
	for i := range vec {
		if !wantSet[vec[i]] || seenTag[vec[i]] {
			wit.Index = i
			why := "is not the tag of a coefficient of the selected groups"
			if seenTag[vec[i]] {
				why = "appears twice in the vector"
			}
			r.Violation("C19:ToVector-wrong-coefficient", wit, fmt.Sprintf("targets %v: ToVector[%d] = tag %v %s", targets, i, vec[i], why))
			return
		}
		seenTag[vec[i]] = true
	}
	byTag := map[float64]*float64{}
	for _, p := range all {
		byTag[*p] = p
	}
	slot := make([]*float64, len(vec)) // the coefficient ToVector read at each index
	for i := range vec {
		slot[i] = byTag[vec[i]]
	}
	n := 0
	for i, p := range e.TunedParams(targets) {
		if i != n {
			r.Violation("C19:TunedParams-index-sequence", wit, fmt.Sprintf("targets %v: TunedParams yielded index %d at position %d", targets, i, n))
			return
		}
		if n >= len(vec) || *p != vec[n] {
			wit.Index = n
			got := math.NaN()
			if p != nil {
				got = *p
			}
			exp := math.NaN()
			if n < len(vec) {
				exp = vec[n]
			}
			r.Violation("C19:TunedParams-and-ToVector-address-different-coefficients", wit, fmt.Sprintf("targets %v: TunedParams[%d] points at tag %v, ToVector[%d] is tag %v", targets, n, got, n, exp))
			return
		}
		n++
	}
	if n != len(vec) {
		r.Violation("C19:TunedParams-length", wit, fmt.Sprintf("targets %v: TunedParams yields %d parameters, ToVector has %d", targets, n, len(vec)))
		return
	}
	// SetVector with a permutation-like fresh tagging, then read back through all three views
	perm := make([]float64, len(vec))
	for i := range perm {
		perm[i] = -5000 - float64((i*7919)%len(perm)) - float64(i)/float64(len(perm)+1)
	}
	before := make([]float64, len(all))
	for i, p := range all {
		before[i] = *p
	}
	e.SetVector(tuning.VectorFromSlice(append([]float64(nil), perm...)), targets)
	// writing index i must reach the coefficient that was read at index i
	for i := range perm {
		if *slot[i] != perm[i] {
			wit.Index = i
			r.Violation("C19:SetVector-ToVector-address-different-coefficients", wit, fmt.Sprintf("targets %v: ToVector[%d] read the coefficient tagged %v; SetVector wrote %v at index %d but that coefficient now holds %v", targets, i, vec[i], perm[i], i, *slot[i]))
			return
		}
	}
	back := e.ToVector(targets).VectorToSlice()
	for i := range perm {
		if back[i] != perm[i] {
			wit.Index = i
			r.Violation("C19:SetVector-ToVector-round-trip", wit, fmt.Sprintf("targets %v: SetVector wrote %v at index %d, ToVector reads %v", targets, perm[i], i, back[i]))
			return
		}
	}
	n = 0
	for _, p := range e.TunedParams(targets) {
		if *p != perm[n] {
			wit.Index = n
			r.Violation("C19:SetVector-TunedParams-round-trip", wit, fmt.Sprintf("targets %v: SetVector wrote %v at index %d, TunedParams points at %v", targets, perm[n], n, *p))
			return
		}
		n++
	}
	for i, p := range all {
		if !selected[p] && *p != before[i] {
			r.Violation("C19:SetVector-touches-unselected-field", wit, fmt.Sprintf("targets %v: float #%d outside the selected groups changed from %v to %v", targets, i, before[i], *p))
			return
		}
	}
	r.Count("mapping_target_sets", 1)
	r.Count("mapping_vector_elements", int64(len(vec)))
}

func TestCheck(t *testing.T) {
	r := ev.Start("C19")
	if err := ref.SelfTest(); err != nil {
		r.HarnessError("%v", err)
		r.Finish()
		t.Fatal(err)
	}
	er := tuning.EngineCoeffs()
	if r.Replay != "" {
		var w witness
		if err := ev.ReadReplay(r.Replay, &w); err != nil {
			t.Fatal(err)
		}
		if w.Kind == "mapping" {
			mapping(r, w.Targets)
		} else {
			p := ref.MustFEN(w.FEN)
			checkPos(r, ev.NewLocal(), &er, &p, w.Kind)
		}
		r.Finish()
		return
	}
	// the conversion itself: every engine coefficient equals its float counterpart
	{
		var fl []*float64
		floatFields(reflect.ValueOf((*eval.CoeffSet[float64])(&er)).Elem(), &fl)
		var in []int64
		var walk func(v reflect.Value)
		walk = func(v reflect.Value) {
			switch v.Kind() {
			case reflect.Int16:
				in = append(in, v.Int())
			case reflect.Array:
				for i := 0; i < v.Len(); i++ {
					walk(v.Index(i))
				}
			case reflect.Struct:
				for i := 0; i < v.NumField(); i++ {
					walk(v.Field(i))
				}
			}
		}
		walk(reflect.ValueOf(eval.Coefficients))
		r.Eval(1)
		if len(fl) != len(in) {
			r.Violation("C19:EngineCoeffs-shape", witness{Kind: "conversion"}, fmt.Sprintf("%d float coefficients vs %d engine coefficients", len(fl), len(in)))
		} else {
			for i := range in {
				if *fl[i] != float64(in[i]) {
					r.Violation("C19:EngineCoeffs-value", witness{Kind: "conversion", Index: i}, fmt.Sprintf("coefficient #%d: engine %d, float %v", i, in[i], *fl[i]))
					break
				}
			}
			r.Count("coefficients_compared", int64(len(in)))
		}
	}
	nw := ev.Workers()
	lcs := make([]*ev.Local, nw)
	for i := range lcs {
		lcs[i] = ev.NewLocal()
	}
	type src struct {
		name string
		f    func(*rand.Rand) (ref.Pos, bool)
		n    int
	}
	knbk := func(rng *rand.Rand) (ref.Pos, bool) {
		var p ref.Pos
		p.EP = -1
		p.Full = 1
		p.Half = rng.IntN(101)
		p.White = rng.IntN(2) == 0
		sg := int8(1)
		if rng.IntN(2) == 0 {
			sg = -1
		}
		sq := rng.Perm(64)
		p.Sq[sq[0]], p.Sq[sq[1]], p.Sq[sq[2]], p.Sq[sq[3]] = ref.K, -ref.K, sg*ref.N, sg*ref.B
		if rng.IntN(4) == 0 {
			p.Sq[sq[2]], p.Sq[sq[3]] = 0, 0
		}
		return p, p.Valid()
	}
	mixed := func(rng *rand.Rand) (ref.Pos, bool) { return gen.AnyPos(rng), true }
	const chunk = 250
	for _, s := range []src{{"dense", gen.Dense, r.N(800000, 48000000)}, {"sparse", gen.Sparse, r.N(600000, 32000000)}, {"mixed", mixed, r.N(400000, 24000000)}, {"knbk", knbk, r.N(100000, 6400000)}} {
		ev.Parallel(s.n/chunk, func(wk, i int) {
			lc := lcs[wk]
			rng := r.RNG("c19-"+s.name, i)
			for k := 0; k < chunk; k++ {
				p, ok := s.f(rng)
				if !ok {
					continue
				}
				if k%2 == 0 {
					p.Half = rng.IntN(101)
				} else {
					p.Half %= 101
				}
				checkPos(r, lc, &er, &p, s.name)
				if k == 0 && i%80 == 0 {
					r.Sample(map[string]any{"kind": "eval-pair", "source": s.name, "fen": p.FEN()})
				}
			}
			r.Merge(lc)
		})
	}
	// playout positions (the tuner's data are game positions)
	corpus := gen.Corpus()
	ev.Parallel(r.N(4000, 240000), func(wk, i int) {
		lc := lcs[wk]
		rng := r.RNG("c19-play", i)
		for _, st := range gen.Playout(rng, corpus[rng.IntN(len(corpus))], 150, gen.BiasRich, 100) {
			p := st.Pos
			checkPos(r, lc, &er, &p, "playout")
		}
		r.Merge(lc)
	})
	// vector mapping: DefaultTargets, every single group, all 2^k subsets of random k<=10 groups
	var names []string
	ct := reflect.TypeOf(eval.CoeffSet[float64]{})
	for i := 0; i < ct.NumField(); i++ {
		names = append(names, ct.Field(i).Name)
	}
	mapping(r, tuning.DefaultTargets)
	mapping(r, names)
	mapping(r, nil)
	for _, n := range names {
		mapping(r, []string{n})
	}
	rng := r.RNG("c19-map", 0)
	rounds := r.N(6, 40)
	for rd := 0; rd < rounds; rd++ {
		k := 6 + rng.IntN(5)
		perm := rng.Perm(len(names))[:k]
		for mask := 0; mask < 1<<k; mask++ {
			var ts []string
			for b := 0; b < k; b++ {
				if mask>>b&1 == 1 {
					ts = append(ts, names[perm[b]])
				}
			}
			if rng.IntN(2) == 0 {
				sort.Strings(ts)
			}
			mapping(r, ts)
		}
	}
	r.Sample(map[string]any{"kind": "mapping", "groups": strings.Join(names, ","), "default_targets": len(tuning.DefaultTargets)})
	r.Finish("positions", "positions_where_no_rounding_applies", "black_to_move", "positions_with_phase_above_24(promoted_material)", "mapping_target_sets", "coefficients_compared")
}
