package c20

import (
	"bytes"
	"fmt"
	"io"
	"math/rand/v2"
	"os"
	"path/filepath"
	"sort"
	"sync"
	"testing"

	"github.com/paulsonkoly/chess-3/tools/tuner/epd"
	"github.com/paulsonkoly/chess-3/tools/tuner/tuning"

	"verif/harness/ev"
)

type fileSpec struct {
	Lines      int    `json:"lines"`        // non-blank lines
	MinLen     int    `json:"min_len"`      // payload length range
	MaxLen     int    `json:"max_len"`
	Blank      string `json:"blank_lines"`  // none | start | middle | runs | end | everywhere
	Seed       uint64 `json:"content_seed"` // PCG seed of lengths and blank positions
	Epoch      int    `json:"epoch"`
	RangeStart int    `json:"range_start"` // -1: whole epoch through Batches/Chunks
	RangeEnd   int    `json:"range_end"`
	Bytes      bool   `json:"arbitrary_bytes"`   // line content incl. trailing \r, tab, space, 0xff
	Interleave bool   `json:"interleaved_reads"` // all chunks of a batch open at once, read round-robin
	Concurrent bool   `json:"concurrent_reads"`  // one goroutine per chunk of a batch, as the client's workers
}

type witness struct {
	Kind  string    `json:"kind"`
	File  *fileSpec `json:"file,omitempty"`
	N     uint64    `json:"n,omitempty"`
	Epoch uint64    `json:"epoch,omitempty"`
}

// build writes the file and returns the expected non-blank lines in physical order.
func build(dir string, fs *fileSpec) (string, [][]byte, error) {
	rng := rand.New(rand.NewPCG(fs.Seed, 77))
	fn := filepath.Join(dir, fmt.Sprintf("f-%d-%d-%s-%d.epd", fs.Lines, fs.MaxLen, fs.Blank, fs.Seed))
	f, err := os.Create(fn)
	if err != nil {
		return "", nil, err
	}
	w := newBuf(f)
	var lines [][]byte
	blank := func(p float64, maxRun int) {
		if rng.Float64() < p {
			for k := 1 + rng.IntN(maxRun); k > 0; k-- {
				w.WriteByte('\n')
			}
		}
	}
	if fs.Blank == "start" || fs.Blank == "everywhere" {
		for k := 1 + rng.IntN(3); k > 0; k-- {
			w.WriteByte('\n')
		}
	}
	for i := 0; i < fs.Lines; i++ {
		n := fs.MinLen
		if fs.MaxLen > fs.MinLen {
			n += rng.IntN(fs.MaxLen - fs.MinLen + 1)
		}
		// unique id + deterministic payload: a read identifies the line it delivered
		l := []byte(fmt.Sprintf("%d:", i))
		for len(l) < n {
			l = append(l, byte('a'+(i+len(l))%26))
		}
		// a line is any byte string without '\n': carriage returns, tabs, spaces and high bytes are content
		if fs.Bytes {
			switch rng.IntN(6) {
			case 0:
				l[len(l)-1] = '\r'
			case 1:
				l = append(l, '\r')
			case 2:
				l[len(l)-1] = ' '
			case 3:
				l[len(l)-1] = '\t'
			case 4:
				l[len(l)-1] = 0xff
			}
		}
		lines = append(lines, l)
		w.Write(l)
		w.WriteByte('\n')
		if i < fs.Lines-1 {
			switch fs.Blank {
			case "middle":
				blank(0.1, 1)
			case "runs", "everywhere":
				blank(0.1, 4)
			}
		}
	}
	if fs.Blank == "end" || fs.Blank == "everywhere" {
		for k := 1 + rng.IntN(3); k > 0; k-- {
			w.WriteByte('\n')
		}
	}
	if err := w.Flush(); err != nil {
		return "", nil, err
	}
	return fn, lines, f.Close()
}

type buf struct {
	f *os.File
	b []byte
	e error
}

func newBuf(f *os.File) *buf { return &buf{f: f, b: make([]byte, 0, 1<<20)} }
func (w *buf) Write(p []byte) {
	if len(w.b)+len(p) > cap(w.b) {
		w.Flush()
	}
	w.b = append(w.b, p...)
}
func (w *buf) WriteByte(c byte) { w.Write([]byte{c}) }
func (w *buf) Flush() error {
	if len(w.b) > 0 && w.e == nil {
		_, w.e = w.f.Write(w.b)
	}
	w.b = w.b[:0]
	return w.e
}

func readRange(c *epd.Chunker, epoch, s, t int) (got [][]byte, err error) {
	defer func() {
		if x := recover(); x != nil {
			err = fmt.Errorf("panic: %v", x)
		}
	}()
	ch, err := c.Open(epoch, s, t)
	if err != nil {
		return nil, err
	}
	defer ch.Close()
	for {
		l, err := ch.Read()
		if err == io.EOF {
			return got, nil
		}
		if err != nil {
			return got, err
		}
		got = append(got, append([]byte(nil), l...))
		if len(got) > t-s+5 {
			return got, fmt.Errorf("more lines than the range holds")
		}
	}
}

// readInterleaved opens every chunk first and then reads them round-robin, one line at a time.
func readInterleaved(c *epd.Chunker, epoch int, cks []tuning.Range) (got [][]byte, err error) {
	defer func() {
		if x := recover(); x != nil {
			err = fmt.Errorf("panic: %v", x)
		}
	}()
	var open []*epd.Chunk
	for _, ck := range cks {
		ch, err := c.Open(epoch, ck.Start, ck.End)
		if err != nil {
			return nil, err
		}
		defer ch.Close()
		open = append(open, ch)
	}
	live := len(open)
	done := make([]bool, len(open))
	for live > 0 {
		for i, ch := range open {
			if done[i] {
				continue
			}
			l, err := ch.Read()
			if err == io.EOF {
				done[i] = true
				live--
				continue
			}
			if err != nil {
				return got, err
			}
			got = append(got, append([]byte(nil), l...))
		}
	}
	return got, nil
}

func multiset(ls [][]byte) map[string]int {
	m := map[string]int{}
	for _, l := range ls {
		m[string(l)]++
	}
	return m
}

func diffSets(got, want map[string]int) string {
	var miss, extra []string
	for k, c := range want {
		if got[k] < c {
			miss = append(miss, k[:min(len(k), 24)])
		}
	}
	for k, c := range got {
		if want[k] < c {
			extra = append(extra, fmt.Sprintf("%q", k[:min(len(k), 24)]))
		}
	}
	sort.Strings(miss)
	sort.Strings(extra)
	if len(miss) > 6 {
		miss = append(miss[:6], fmt.Sprintf("... %d in all", len(miss)))
	}
	if len(extra) > 6 {
		extra = append(extra[:6], fmt.Sprintf("... %d in all", len(extra)))
	}
	return fmt.Sprintf("not delivered: %v; delivered but not expected (corrupted / duplicated): %v", miss, extra)
}

func fileCase(r *ev.Run, dir string, fs fileSpec) {
	fn, lines, err := build(dir, &fs)
	if err != nil {
		r.HarnessError("cannot write test file: %v", err)
		return
	}
	defer os.Remove(fn)
	wit := witness{Kind: "file", File: &fs}
	c, err := epd.NewChunker(fn)
	r.Eval(1)
	if err != nil {
		r.Violation("C20:NewChunker-error", wit, err.Error())
		return
	}
	n := c.LineCount()
	if n != len(lines) {
		r.Violation("C20:line-count", wit, fmt.Sprintf("file with %d non-blank lines (blank lines: %s): LineCount()=%d", len(lines), fs.Blank, n))
		return
	}
	r.Count("files", 1)
	r.Count("file_lines", int64(n))
	if fs.Blank != "none" {
		r.Count("files_with_blank_lines_"+fs.Blank, 1)
	}
	if fs.RangeStart >= 0 {
		// arbitrary sub-range: exactly the lines at the shuffled indices start..end-1
		s, t := fs.RangeStart, min(fs.RangeEnd, n)
		if s >= n {
			return
		}
		got, err := readRange(c, fs.Epoch, s, t)
		if err != nil {
			r.Violation("C20:read-error", wit, fmt.Sprintf("range [%d,%d) epoch %d: %v", s, t, fs.Epoch, err))
			return
		}
		var want [][]byte
		for ix := s; ix < t; ix++ {
			want = append(want, lines[epd.VerifShuffleIndex(uint64(ix), uint64(n), uint64(fs.Epoch))])
		}
		r.Count("sub_ranges", 1)
		if g, w := multiset(got), multiset(want); len(got) != len(want) || !same(g, w) {
			r.Violation("C20:sub-range-delivers-wrong-lines", wit, fmt.Sprintf("range [%d,%d) of %d lines, epoch %d: delivered %d lines, expected %d; %s", s, t, n, fs.Epoch, len(got), len(want), diffSets(g, w)))
		}
		return
	}
	// whole epoch through Batches and Chunks
	var all [][]byte
	covered := 0
	prevEnd := 0
	for b := range tuning.Batches(n) {
		if b.Start != prevEnd {
			r.Violation("C20:batches-do-not-partition", wit, fmt.Sprintf("batch starts at %d, previous ended at %d", b.Start, prevEnd))
			return
		}
		prevEnd = b.End
		r.Count("batches", 1)
		cprev := b.Start
		if fs.Concurrent {
			var cks []tuning.Range
			for ck := range tuning.Chunks(b) {
				cks = append(cks, ck)
			}
			parts := make([][][]byte, len(cks))
			errs := make([]error, len(cks))
			var wg sync.WaitGroup
			for i, ck := range cks {
				wg.Add(1)
				go func(i int, ck tuning.Range) {
					defer wg.Done()
					parts[i], errs[i] = readRange(c, fs.Epoch, ck.Start, ck.End)
				}(i, ck)
			}
			wg.Wait()
			for i, ck := range cks {
				if errs[i] != nil {
					r.Violation("C20:read-error", wit, fmt.Sprintf("concurrent chunk %+v epoch %d: %v", ck, fs.Epoch, errs[i]))
					return
				}
				covered += ck.Len()
				all = append(all, parts[i]...)
				r.Count("chunks_read_concurrently", 1)
			}
			continue
		}
		if fs.Interleave {
			// the client's workers keep several chunks of one Chunker open at the same time
			var cks []tuning.Range
			for ck := range tuning.Chunks(b) {
				cks = append(cks, ck)
			}
			got, err := readInterleaved(c, fs.Epoch, cks)
			if err != nil {
				r.Violation("C20:read-error", wit, fmt.Sprintf("interleaved chunks of batch %+v epoch %d: %v", b, fs.Epoch, err))
				return
			}
			for _, ck := range cks {
				covered += ck.Len()
				r.Count("chunks_read_interleaved", 1)
			}
			all = append(all, got...)
			continue
		}
		for ck := range tuning.Chunks(b) {
			if ck.Start != cprev || ck.End > b.End || ck.End <= ck.Start {
				r.Violation("C20:chunks-do-not-partition", wit, fmt.Sprintf("chunk %+v in batch %+v, previous chunk ended at %d", ck, b, cprev))
				return
			}
			cprev = ck.End
			r.Count("chunks", 1)
			got, err := readRange(c, fs.Epoch, ck.Start, ck.End)
			if err != nil {
				r.Violation("C20:read-error", wit, fmt.Sprintf("chunk %+v epoch %d: %v", ck, fs.Epoch, err))
				return
			}
			covered += ck.Len()
			all = append(all, got...)
		}
		if cprev != b.End {
			r.Violation("C20:chunks-do-not-partition", wit, fmt.Sprintf("chunks of batch %+v end at %d", b, cprev))
			return
		}
	}
	if prevEnd != n || covered != n {
		r.Violation("C20:batches-do-not-partition", wit, fmt.Sprintf("batches cover [0,%d), chunks cover %d indices, file has %d lines", prevEnd, covered, n))
		return
	}
	if g, w := multiset(all), multiset(lines); len(all) != len(lines) || !same(g, w) {
		r.Violation("C20:epoch-does-not-deliver-every-line-once:blank-"+fs.Blank, wit, fmt.Sprintf("%d lines, blank lines %s, epoch %d: delivered %d lines; %s", n, fs.Blank, fs.Epoch, len(all), diffSets(g, w)))
	}
}

func same(a, b map[string]int) bool {
	if len(a) != len(b) {
		return false
	}
	for k, v := range a {
		if b[k] != v {
			return false
		}
	}
	return true
}

// perm checks that x -> shuffle(x, n, epoch) is a permutation of [0,n).
func perm(r *ev.Run, wk int, n, epoch uint64, seen []uint64) {
	r.Current(wk, map[string]any{"shuffle_n": n, "epoch": epoch})
	words := (n + 63) / 64
	for i := uint64(0); i < words; i++ {
		seen[i] = 0
	}
	for x := uint64(0); x < n; x++ {
		y := epd.VerifShuffleIndex(x, n, epoch)
		if y >= n {
			r.Violation("C20:shuffle-out-of-range", witness{Kind: "shuffle", N: n, Epoch: epoch}, fmt.Sprintf("shuffleIndex(%d, %d, %d) = %d", x, n, epoch, y))
			return
		}
		if seen[y/64]>>(y%64)&1 == 1 {
			r.Violation("C20:shuffle-not-a-permutation", witness{Kind: "shuffle", N: n, Epoch: epoch}, fmt.Sprintf("n=%d epoch=%d: index %d is produced twice (second time for x=%d)", n, epoch, y, x))
			return
		}
		seen[y/64] |= 1 << (y % 64)
	}
	r.Eval(1)
	r.Progress()
}

func TestCheck(t *testing.T) {
	r := ev.Start("C20")
	dir := filepath.Join(os.Getenv("VERIF_BUILD"), "tmp", fmt.Sprintf("c20-%d", os.Getpid()))
	if os.Getenv("VERIF_BUILD") == "" {
		dir = t.TempDir()
	}
	if err := os.MkdirAll(dir, 0o755); err != nil {
		r.HarnessError("%v", err)
		r.Finish()
		t.Fatal(err)
	}
	defer os.RemoveAll(dir)
	if r.Replay != "" {
		var w witness
		if err := ev.ReadReplay(r.Replay, &w); err != nil {
			t.Fatal(err)
		}
		if w.Kind == "shuffle" {
			perm(r, 0, w.N, w.Epoch, make([]uint64, w.N/64+2))
		} else if w.File != nil {
			fileCase(r, dir, *w.File)
		}
		r.Finish()
		return
	}
	asan := r.Stage == "asan" || r.Stage == "race"
	// (a) the shuffle: every n in [1,N] x epochs 0..15 and random 64-bit epochs; powers of two +-1
	maxN := uint64(r.N(6000, 20000))
	if asan {
		maxN = 1500
	}
	ev.Parallel(int(maxN), func(wk, i int) {
		n := uint64(i + 1)
		seen := make([]uint64, n/64+2)
		rng := r.RNG("c20-epochs", i)
		for e := uint64(0); e < 16; e++ {
			perm(r, wk, n, e, seen)
		}
		perm(r, wk, n, rng.Uint64(), seen)
		perm(r, wk, n, rng.Uint64(), seen)
		r.Count("shuffle_permutations_checked", 18)
		r.Distinct(n)
	})
	r.Count("shuffle_exhaustive_up_to_n", int64(maxN))
	var big []uint64
	top := 22
	if asan {
		top = 16
	}
	for k := 1; k <= top; k++ {
		for _, d := range []int64{-1, 0, 1} {
			if v := int64(1)<<k + d; v >= 1 {
				big = append(big, uint64(v))
			}
		}
	}
	big = append(big, 100000, 100001, 250001, 6250, 6251, 99999)
	ev.Parallel(len(big), func(wk, i int) {
		n := big[i]
		seen := make([]uint64, n/64+2)
		rng := r.RNG("c20-big", i)
		for _, e := range []uint64{0, 1, 7, rng.Uint64(), rng.Uint64()} {
			perm(r, wk, n, e, seen)
			r.Count("shuffle_permutations_checked", 1)
		}
		r.Distinct(1<<40 | n)
	})
	// (b) files: every line count 1..300, blank-line variants, sub-ranges
	blanks := []string{"none", "start", "middle", "runs", "end", "everywhere"}
	maxLines := r.N(300, 1200)
	if asan {
		maxLines = 120
	}
	ev.Parallel(maxLines, func(wk, i int) {
		rng := r.RNG("c20-files", i)
		n := i + 1
		for k, bl := range blanks {
			fs := fileSpec{Lines: n, MinLen: 1, MaxLen: 1 + rng.IntN(60), Blank: bl, Seed: rng.Uint64(), Epoch: rng.IntN(64), RangeStart: -1, Bytes: k%2 == 1}
			if k == 0 && n%7 == 0 {
				fs.MaxLen = 4000 // below the 4 KiB line-reader buffer
			}
			fileCase(r, dir, fs)
			// arbitrary sub-range of the same kind of file
			s := rng.IntN(n)
			fs2 := fs
			fs2.Seed, fs2.Epoch = rng.Uint64(), int(rng.Uint32()>>1)
			fs2.RangeStart, fs2.RangeEnd = s, s+1+rng.IntN(n-s)
			fileCase(r, dir, fs2)
		}
		r.Distinct(1<<41 | uint64(n))
		if n%60 == 0 {
			r.Sample(map[string]any{"kind": "file", "lines": n, "blank_variants": blanks, "sub_range": true})
		}
	})
	// sampled sizes beyond, incl. several batches (chunk boundaries at 6250) and powers of two +-1
	sizes := []int{1023, 1024, 1025, 4095, 4097, 6249, 6250, 6251, 12500, 12501, 65535, 65537, 99999, 100000, 100001, 200001}
	if r.Thorough() {
		sizes = append(sizes, 131071, 131073, 250001, 300000)
	}
	if asan {
		sizes = []int{1025, 6251, 100001}
	}
	ev.Parallel(len(sizes), func(wk, i int) {
		rng := r.RNG("c20-sizes", i)
		bl := blanks[i%len(blanks)]
		fs := fileSpec{Lines: sizes[i], MinLen: 1, MaxLen: 24, Blank: bl, Seed: rng.Uint64(), Epoch: rng.IntN(1000), RangeStart: -1, Bytes: i%2 == 0}
		fileCase(r, dir, fs)
		fs.Interleave = true
		fs.Epoch++
		fileCase(r, dir, fs)
		fs.Interleave, fs.Concurrent = false, true
		fs.Epoch++
		fileCase(r, dir, fs)
		fs.Concurrent = false
		fs.RangeStart = rng.IntN(sizes[i])
		fs.RangeEnd = fs.RangeStart + 1 + rng.IntN(sizes[i]-fs.RangeStart)
		fs.Seed = rng.Uint64()
		fileCase(r, dir, fs)
		r.Distinct(1<<42 | uint64(sizes[i]))
		r.Sample(map[string]any{"kind": "file", "lines": sizes[i], "blank_lines": bl, "epoch": fs.Epoch})
	})
	// one file larger than the 32 MiB read window: lines straddle the refill boundary
	{
		rng := r.RNG("c20-large", 0)
		fs := fileSpec{Lines: 11000 + rng.IntN(800), MinLen: 2800, MaxLen: 3990, Blank: "middle", Seed: rng.Uint64(), Epoch: rng.IntN(100), RangeStart: 0, RangeEnd: 1 << 30}
		var sz int64
		fn, _, err := build(dir, &fs)
		if err == nil {
			if st, e2 := os.Stat(fn); e2 == nil {
				sz = st.Size()
			}
			os.Remove(fn)
		}
		r.Count("large_file_bytes", sz)
		if sz <= 32*1024*1024 {
			r.HarnessError("large file is only %d bytes", sz)
		}
		fileCase(r, dir, fs) // dense range [0,n): every line, refills in physical order
		fs.RangeStart = -1
		fs.Epoch++
		fileCase(r, dir, fs) // and through Batches/Chunks
		fs.Interleave = true
		fs.Epoch++
		fileCase(r, dir, fs) // and with all 16 chunks open at once: every chunk refills its own window
		r.Sample(map[string]any{"kind": "large-file", "bytes": sz, "lines": fs.Lines, "line_len": "2800..3990"})
		r.Distinct(1 << 43)
	}
	r.Finish("shuffle_permutations_checked", "files", "sub_ranges", "batches", "chunks", "files_with_blank_lines_middle", "files_with_blank_lines_runs", "files_with_blank_lines_start",
		"files_with_blank_lines_end", "files_with_blank_lines_everywhere", "large_file_bytes", "chunks_read_interleaved", "chunks_read_concurrently")
}

var _ = bytes.Equal
